#!/usr/bin/env python3
"""Records, in seeded/<id>/meta.json, what the checks said when the change was first run (before any rule was added
because of it) and which rule was added afterwards.  The table is maintained by hand while the seeds are triaged."""
import json
import os

VERIF = os.path.dirname(os.path.dirname(os.path.abspath(__file__)))

# seed -> (own check at first run, other checks reporting at first run, rule added because of it)
FIRST = {
    'C01-1': ('reported', [], None), 'C01-2': ('reported', ['C02', 'C08', 'C11'], None), 'C01-3': ('reported', [], None),
    'C02-1': ('reported', ['C08', 'C12', 'C13'], None),
    'C02-2': ('silent', ['C13'], 'C02.R2 extended with the from_vector pairing'),
    'C02-3': ('silent', ['C19'], 'C02.R6 ownership of the charge vectors'),
    'C03-1': ('silent', [], 'C03.R2 boundary labels of the sum'),
    'C03-2': ('silent', [], 'C03.R5 dtype of the sum blocks (sum_dtype_rule)'),
    'C03-3': ('silent', ['C19'], 'C03.R5 independence of site data (aliasing_rules)'),
    'C04-1': ('reported', [], None), 'C04-2': ('reported', [], None), 'C04-3': ('reported', ['C08', 'C10'], None),
    'C05-1': ('silent', [], 'C05 in-edge slot rule (eids[0] of the end node)'),
    'C05-2': ('silent', [], 'C05.R5 coefficient placed exactly once'),
    'C05-3': ('analysis-error', [], 'len()-based bond index rule for nid_map'),
    'C07-1': ('silent', [], 'C07.R3b skip-guard rule'),
    'C07-2': ('silent', [], 'C07.R5 gauge mirror / conjugation rule'),
    'C07-3': ('silent', [], 'C07.R8 Jordan-Wigner parity of every edge'),
    'C08-1': ('silent', [], 'K.R4 storage dtype of the Krylov basis'),
    'C08-2': ('analysis-error', [], 'C08.R2 nothing changes psi before the normalisation; conditionals in the sweep machine'),
    'C08-3': ('analysis-error', ['C19'], 'operator argument must be the current H.A tensors (slot rule); conditionals'),
    'C09-1': ('reported', ['C08', 'C10', 'C14'], None),
    'C09-2': ('silent', ['C08'], 'K.R6 homogeneity of expm_krylov in the start vector'),
    'C09-3': ('silent', ['C08'], 'C09.R3 reported norm'),
    'C10-1': ('reported', ['C08', 'C09', 'C14'], None),
    'C10-2': ('silent', [], 'C10.R6 sweep coverage'),
    'C10-3': ('reported', [], None),
    'C11-1': ('analysis-error', ['C19'], 'in-place re-arrangement reported by the block engine'),
    'C11-2': ('reported', ['C01', 'C02', 'C08'], None),
    'C11-3': ('silent', [], 'charge storage dtype in the block engine'),
    'C12-1': ('silent', [], 'C12.R8 truncation rule T2 (ascending accumulation)'),
    'C12-2': ('analysis-error', [], 'overwrite_* flags: effects engine and block engine'),
    'C12-3': ('silent', [], 'C12.R8 truncation rule T3 (strict comparison)'),
    'C13-1': ('silent', [], 'C13.R7 truncation rule T1 (relative weight)'),
    'C13-2': ('reported', [], None), 'C13-3': ('reported', ['C02'], None),
    'C14-1': ('reported', ['C08', 'C09', 'C10'], None), 'C14-2': ('reported', ['C08', 'C09', 'C10'], None),
    'C14-3': ('silent', [], 'C14.R5 definite assignment'),
    'C16-1': ('reported', ['C19'], None),
    'C16-2': ('silent', [], 'C16.R6 coefficient-map sum in OpGraphEdge.add'),
    'C16-3': ('reported', [], None),
    'C17-1': ('silent', [], 'C17.R4 frontier / growth agreement'),
    'C17-2': ('silent', [], 'C17.R5 no loop-carried local'),
    'C17-3': ('silent', [], 'C17.R6 Kronecker site order'),
    'C19-1': ('reported', [], None), 'C19-2': ('reported', [], None), 'C19-3': ('reported', [], None),
    # second round (a second agent per property, asked for less obvious changes; exact repeats of earlier seeds not kept)
    'C01-4': ('silent', [], 'C01.R2 / C13.R1 must-pass-through: every returning path runs through the sweep'),
    'C01-5': ('reported', ['C02'], None),
    'C02-4': ('reported', [], 'label temporaries in the sweep machine; label stores tolerated in the factor tail (C01 ended in an '
                              'analysis error on a routine that was still correct)'),
    'C02-5': ('silent', [], 'C02.R7 constructor loop carries no local from site to site'),
    'C03-4': ('silent', [], 'C03.R6 linearity: tensor entries are never inspected'),
    'C04-4': ('reported', [], None), 'C04-5': ('reported', [], None), 'C04-6': ('reported', ['C08', 'C10'], None),
    'C05-4': ('analysis-error', [], 'C05.R3: node map recorded by enumerating the new layer (violation instead of exit 2)'),
    'C05-5': ('silent', [], 'C05.R6 lockstep of co-indexed lists'),
    'C05-6': ('silent', [], 'C05.R7 value-independent structure'),
    'C07-4': ('reported', [], None),
    'C07-5': ('silent', [], 'C07.R5 spectator orbitals cover [0, i) and [i + 2, L)'),
    'C07-6': ('analysis-error', [], 'len()-allocators judged together with id gaps of the same family (C07.R1)'),
    'C08-4': ('reported', ['C04', 'C10'], None),
    'C09-4': ('silent', ['C08'], 'C09.R2 carries the wiring (slot / stale) obligations'),
    'C10-4': ('reported', [], None), 'C10-5': ('reported', [], None),
    'C11-4': ('analysis-error', [], 'block engine: a flag raised in one conditional permutation stands for that guard'),
    'C11-5': ('analysis-error', [], 'block engine: returning path that bypasses the block loop is reported'),
    'C11-6': ('analysis-error', [], 'block engine: dummy-bond branch under any other condition than "no shared charge" is reported'),
    'C12-4': ('analysis-error', [], 'truncation rule: every return judged; unknown steps become unknown values instead of exit 2'),
    'C12-5': ('reported', ['C02', 'C03'], None),
    'C13-4': ('reported', [], None),
    'C14-4': ('silent', [], 'C14.R7 projection bookkeeping'),
    'C14-5': ('reported', ['C08', 'C09', 'C10'], None),
    'C16-4': ('reported', [], None),
    'C17-4': ('silent', [], 'C17.R4: no early exit from the reachability sweep; conflicting ways of extending the layer list'),
    'C17-5': ('silent', [], 'C17.R7 value-independent structure of the tree insertion'),
    'C19-4': ('reported', ['C02'], None), 'C19-5': ('reported', [], None),
    # round 3: refactorings with a hidden slip (one sub-agent per group of source files)
    'C11-7': ('analysis-error', [], 'load-time normalisation: copies of single-use locals coalesced, bool(...) guards read as their test'),
    'C12-6': ('reported', ['C13'], None),
    'C14-6': ('reported', ['C08', 'C09', 'C10'], None), 'C14-7': ('reported', ['C08', 'C09', 'C10'], None),
    'C17-6': ('reported', ['C03'], None),
    'C17-7': ('silent', ['C05', 'C07'], 'C17.R9 edge constructor sums repeated ids (rule of C16.R6 instantiated for __init__); '
                                        'read-modify-write of an accumulator through a comprehension reported as a stale read'),
    'C17-8': ('silent', [], 'C17.R8 graph tables: add_connect_edge visits both ends without early exit (OpGraph / AutOp as siblings)'),
    'C17-9': ('reported', ['C03'], None),
    'C17-10': ('analysis-error', [], 'C17.R2 scoped to the enclosing loops (site index of the active list); violations survive a later '
                                     'analysis error'),
    'C07-7': ('reported', [], None), 'C07-8': ('reported', [], None),
    'C07-9': ('silent', [], 'C07.R9 storage type of preallocated arrays (symbolic element-type lattice, sa/dtypeflow.py)'),
    'C07-10': ('analysis-error', [], 'operator tables hoisted into tuples are evaluated (C07.R6 / R8)'),
    'C01-6': ('analysis-error', ['C02'], 'factor algebra: np.sign as a monomial with the constant-sign obligation; real form'),
    'C03-5': ('silent', [], 'C03.R7 storage type of preallocated arrays'),
    'C03-6': ('analysis-error', [], 'label stores of multiply_mpo resolved through locals (rolling pair by induction over the loop); '
                                    'coverage of the bonds 0..L by the stores; contraction read off the leg value instead of the '
                                    'tensordot spelling (C04.R3)'),
    'C05-7': ('reported', ['C07'], None),
    'C05-8': ('analysis-error', ['C07'], 'violations established before an analysis error are reported (partial-run policy)'),
    'C13-5': ('reported', [], None),
    'C02-6': ('reported', ['C13'], None), 'C02-7': ('reported', ['C03', 'C19'], None),
    'C04-7': ('analysis-error', [], 'C04.R4: delegation to a sibling driver composed with the argument binding; zip(reversed(..)) loops '
                                    'normalised to index loops'),
    'C04-8': ('reported', ['C08', 'C10'], None), 'C04-9': ('reported', [], None),
    'C04-10': ('analysis-error', [], 'C04.R4: kernel call found through the normalised loop'),
    'C16-5': ('silent', [], 'C16.R4: the fresh-id argument of every rename call is followed to its max(...) + 1, per binding of a loop '
                            'over a literal tuple of tables (was tied to the names next_nid / next_eid)'),
    'C16-6': ('reported', ['C05', 'C07'], None),
    'C10-6': ('reported', ['C02'], None), 'C10-7': ('reported', [], None),
    'C08-5': ('analysis-error', [], 'sweep machine: local multiples of dt, results of local steps consumed by an in-line QR, views of '
                                    'site tensors; in-place store into an existing site tensor reported (keeps dtype and shape)'),
    # round 5: support modules (qnumber / opchain / optree / autop) and a second pass over krylov / sweeps
    'C05-9': ('analysis-error', [], 'C05.R4 decided on the partially evaluated OpChain.padded (symbolic chain, segments of (count, element))'),
    'C17-11': ('reported', ['C03'], None),
    'C02-8': ('silent', [], 'C02.R8 / C01.R5 / C03.R8 rules for the quantum-number helpers (outer sum fold order, row-major flatten, '
                            'is_qsparse as an existential reduction)'),
    'C17-12': ('reported', ['C06'], None),
    'C17-13': ('silent', [], 'C17.R10 / C19.CTOR: ownership constructors convert the sequence they are handed'),
    'C14-8': ('reported', ['C08', 'C09', 'C10'], None), 'C14-9': ('reported', ['C08', 'C09', 'C10'], None),
    'C10-8': ('reported', [], None),
    'C08-6': ('reported', [], None), 'C08-7': ('reported', ['C02', 'C09'], None),
    # round 6: by kind of slip (element types / aliasing / boundary sizes), anywhere in the package
    'C01-8': ('analysis-error', [], 'block pre-pass: None-sentinel of a conditional permutation; block engine: working copy of the matrix under '
                                    'another name keeps the element type of the parameter apart (also exposed an inliner bug: a formal '
                                    'returned under another name lost its initial binding)'),
    'C03-7': ('reported', ['C02', 'C19'], None),
    'C14-10': ('reported', ['C08', 'C09', 'C10'], None),
    'C07-11': ('reported', [], None),
    'C08-8': ('analysis-error', [], 'sweep machine: result of a local step written INTO the existing site tensor is reported'),
    'C19-6': ('reported', ['C02', 'C03'], None), 'C19-7': ('reported', ['C03'], None),
    'C19-8': ('reported', ['C08', 'C09', 'C10', 'C14'], None),
    'C16-7': ('reported', ['C19'], None), 'C19-9': ('reported', [], None),
    'C14-11': ('silent', [], 'K.R8 written basis rows: an early return hands back exactly the rows written so far (first reported for a wrong '
                             'reason through the inliner bug, silent once that was fixed)'),
    'C12-7': ('reported', ['C13'], None),
    'C03-8': ('silent', ['C02', 'C13'], 'generic DEFINED rule: definite assignment over the functions a property depends on'),
    'C17-14': ('analysis-error', [], 'graph-table rule: beliefs about an empty edge table agree (max(.., default=..)); support rules run first'),
    'C01-9': ('reported', [], None),
    # round 7: by kind of slip (order / orientation, control flow / bookkeeping)
    'C04-11': ('reported', [], None),
    'C11-8': ('reported', ['C01', 'C02', 'C08'], None),
    'C17-15': ('reported', [], None),
    'C13-6': ('analysis-error', [], 'load-time pass that sinks a hoisted common tail back into the branches (and flattens elif chains whose '
                                    'branches return); len(self.A) / nsites inside indices are the number of sites'),
    'C17-16': ('reported', ['C03'], None),
    'C14-12': ('reported', ['C08', 'C09', 'C10'], None),
    'C16-8': ('reported', ['C05', 'C06', 'C07', 'C17'], None),
    'C05-10': ('analysis-error', [], 'a known miss for two rounds (exit 2, fail-closed); C05.R3 then learned that a column read back from the '
                                     'node map recorded by enumerating the layer is a column lookup - the counter rule fires on `len(Alist)`'),
    'C10-9': ('analysis-error', [], 'the sinking pass makes the extracted half-sweeps visible again; C10.R4 (reported energy belongs to the final '
                                    'half sweep) then fires'),
    'C02-9': ('reported', ['C13'], None),
    # round 8: by kind of slip (contracts / conventions, numerical structure)
    'C16-9': ('reported', ['C05', 'C06', 'C07', 'C17'], None),
    'C04-12': ('reported', [], None),
    'C14-13': ('reported', ['C08', 'C09', 'C10'], None),
    'C02-10': ('analysis-error', [], 'a local step that delegates to its sibling is followed into the sibling (factorisation call found there); the '
                                     'label-orientation rules then fire at the call sites that were not updated'),
    'C05-11': ('reported', ['C06', 'C07'], None),
    'C12-8': ('reported', ['C13'], None),
    'C14-14': ('silent', [], 'K.R9 scale invariance: degree typing in the start vector, every comparison between quantities of equal degree '
                             '(first reported for a wrong reason - an index bound the engine could not prove behind `if j == last: break`)'),
    'C04-13': ('reported', [], None),
    'C03-9': ('reported', ['C02'], None),
    'C08-9': ('reported', ['C09'], None),
    # round 9: control batch of one-token slips; slips inside refactorings of the graph / molecular constructions
    'C12-9': ('reported', ['C13'], None), 'C11-9': ('reported', ['C01', 'C02', 'C08'], None), 'C02-11': ('reported', ['C13'], None),
    'C14-15': ('reported', ['C08', 'C09', 'C10'], None), 'C04-14': ('reported', [], None), 'C16-10': ('reported', [], None),
    'C05-12': ('reported', ['C06', 'C07'], None), 'C17-17': ('reported', ['C03'], None),
    'C05-13': ('analysis-error', [], 'C05.R3 reads roles: a position table built by enumerating the layer is the layer ordering in another form; '
                                     'X.update(pairs) is the loop of stores; the counter rule then fires on `len(Alist)`'),
    'C17-18': ('reported', [], None), 'C05-14': ('reported', ['C06', 'C07'], None),
    'C07-12': ('reported', [], None), 'C07-13': ('reported', [], None),
    # round 4: C06 (claimed late; first run = literal-shape version of the table engine)
    'C06-1': ('reported', [], None),
    'C06-2': ('reported', [], 'reported for the wrong reason at first (the conditional construction was not understood); now: undecided '
                              'tests are forked and a parameter may be absent only on a path that tested it'),
    'C06-3': ('silent', [], 'C06.R5 no memoising decorator on a constructor'),
    'C06-4': ('analysis-error', [], 'C06.R4 placements compared as sets of starts under the path condition (partial evaluator forks on '
                                    'undecided tests)'),
    'C06-5': ('silent', [], 'string parameters that are only compared with literals are enumerated (every spelling of ftype)'),
    'C06-6': ('analysis-error', [], 'partial evaluator: helpers, comprehensions over symbolic ranges, max() forked'),
    'C06-7': ('analysis-error', [], 'partial evaluator: list families, dict(zip(..)), symbolic sequences; depth algebra instead of key '
                                    'conventions'),
    'C06-8': ('reported', [], 'reported for the wrong reason at first (soundness bug of the load-time inliner: list display substituted for '
                              'a formal); now C06.R5: a filled mutable default is state shared between calls'),
    'C06-9': ('analysis-error', [], 'storage-type rule extended to arrays built from values with np.array([...]); support rules evaluated '
                                    'before the table rules'),
    'C09-5': ('analysis-error', [], 'sweep machine: loop peeling for tests on the first / last position, tests decided by the '
                                    'number-of-sites case, range(a, b, -1); step budget decided on elementary pieces; palindrome '
                                    'compared in a normal form of the schedule; C09.R4 step budget for L = 1, 2'),
    # tenth batch (four properties with the fewest seeds)
    'C01-10': ('reported', ['C02', 'C08', 'C11'], None), 'C12-10': ('reported', ['C13'], None), 'C13-7': ('reported', ['C12'], None),
    'C09-6': ('silent', [], 'must-pass-through for the local TDVP steps (C08.R5 / new C09.R5): every exit returns the result of '
                           'expm_krylov, the only exit handing the input back is guarded by dt == 0'),
}


def main():
    base = os.path.join(VERIF, 'seeded')
    for sid, (own, others, rule) in FIRST.items():
        mp = os.path.join(base, sid, 'meta.json')
        if not os.path.exists(mp):
            print('missing', sid)
            continue
        m = json.load(open(mp))
        m['first_run'] = {'own_check': own, 'other_checks_reporting': others, 'rule_added_afterwards': rule}
        m.pop('reported_when_first_run', None)
        json.dump(m, open(mp, 'w'), indent=1)
    missing = [d for d in sorted(os.listdir(base)) if os.path.isdir(os.path.join(base, d)) and d not in FIRST]
    if missing:
        print('no history entry for', missing)


if __name__ == '__main__':
    main()
