"""C12 - block-sparse SVD split (structural part)."""
import ast

from ..loader import norm, AnalysisError
from ..effects import Engine
from .. import legs as lg
from ..legs import LegError, LegUnknown, TVal
from ..legs_interp import LegInterp, TupleVal
from .C11 import run_block, bounds_rule
from . import legrules as lr
from .common import where


def split_tensor_rules(chk, repo, rid):
    """split_mps_tensor: leg-level rules for all three ways of distributing the singular values"""
    fi = repo.func('mps.split_mps_tensor')
    n = 0
    for distr in ('left', 'right', 'sqrt'):
        A = lg.param_tensor('A', 3, charges=[None, (1, 'qD[0]'), (-1, 'qD[1]')],
                            composite={0: [('len(qd0)', (1, 'qd0')), ('len(qd1)', (1, 'qd1'))]})
        env = {'A': A}
        try:
            it = LegInterp(fi, env, consts={'svd_distr': distr}, repo=repo)
            out = it.run()
        except LegError as ex:
            if isinstance(ex, LegUnknown):
                raise           # not understood is not a finding
            chk.ob(rid, where(repo, fi, fi.node), f'split_mps_tensor(svd_distr={distr!r}): body is well-formed in the leg domain',
                   False, str(ex), key=f'{rid}|{distr}|wellformed')
            n += 1
            continue
        if not isinstance(out, TupleVal) or len(out.items) != 3 or not all(isinstance(x, TVal) for x in out.items[:2]):
            raise AnalysisError('split_mps_tensor: expected (A0, A1, label)')
        A0, A1, label = out.items
        w = where(repo, fi, fi.node)
        ok_rank = A0.rank == 3 and A1.rank == 3
        chk.ob(rid, w, f'split_mps_tensor({distr!r}): both results are site tensors (phys, left, right)', ok_rank,
               f'ranks {A0.rank}, {A1.rank}', key=f'{rid}|{distr}|ranks')
        n += 1
        if not ok_rank:
            continue
        try:
            new = lg.tensordot(A0, A1, [2], [1], 'new bond')
            red, applied, problems = lg.apply_rules(new)
            c = lg.canon(red)
            ok = not problems and len(applied) == 1 and c['open'] == [('A.0a',), ('A.1',), ('A.0b',), ('A.2',)] and \
                not c['pairs'] and not [o for o in red.net.occs if o.kind != 'param'] and not red.net.weights
            detail = '; '.join(problems) or f'open {c["open"]}, pairs {c["pairs"]}'
        except LegError as ex:
            if isinstance(ex, LegUnknown):
                raise           # not understood is not a finding
            ok, detail = False, str(ex)
        chk.ob(rid, w, f'split_mps_tensor({distr!r}): the two tensors contracted over the new bond give back the input '
               f'(singular values enter with total exponent 1)', ok, detail, key=f'{rid}|{distr}|gauge')
        # merging undoes the split: merge_mps_tensor_pair groups (p0, p1) in this order
        try:
            mfi = repo.func('mps.merge_mps_tensor_pair')
            mi = LegInterp(mfi, {'A0': A0, 'A1': A1}, repo=repo)
            mv = mi.run()
            red2, _, pr2 = lg.apply_rules(mv)
            c2 = lg.canon(red2)
            ok2 = not pr2 and c2['open'] == [('A.0a', 'A.0b'), ('A.1',), ('A.2',)] and not c2['pairs']
            d2 = f'open {c2["open"]}'
        except LegError as ex:
            if isinstance(ex, LegUnknown):
                raise           # not understood is not a finding
            ok2, d2 = False, str(ex)
        chk.ob(rid, w, f'split_mps_tensor({distr!r}) followed by merge_mps_tensor_pair reproduces the layout of the input',
               ok2, d2, key=f'{rid}|{distr}|merge-undoes-split')
        lr.check_factor_charges(chk, rid, repo, it.factor_calls[0], f'{rid}|{distr}')
        lr.check_label(chk, rid, repo, fi, 'mps', A0, label, it.ret_node, f'{rid}|{distr}')
        n += 5
    # any other value raises
    raises = [s for s in ast.walk(fi.node) if isinstance(s, ast.Raise)]
    # decided by following the function with an option value that is none of the three
    ok_r, d_r = False, ''
    try:
        A = lg.param_tensor('A', 3, charges=[None, (1, 'qD[0]'), (-1, 'qD[1]')],
                            composite={0: [('len(qd0)', (1, 'qd0')), ('len(qd1)', (1, 'qd1'))]})
        it = LegInterp(fi, {'A': A}, consts={'svd_distr': '<any other value>'}, repo=repo)
        out = it.run()
        from ..legs_interp import Opaque as _Opaque
        ok_r = isinstance(out, _Opaque) and out.text == 'raise'
        d_r = '' if ok_r else 'the function returns for an option value that is not left / right / sqrt'
    except LegError as ex:
        if isinstance(ex, LegUnknown):
            raise
        d_r = str(ex)
    chk.ob(rid, where(repo, fi, raises[0] if raises else fi.node), 'split_mps_tensor: an unknown svd_distr raises',
           ok_r and len(raises) >= 1, d_r, key=f'{rid}|raises')
    return n + 1


def run(chk, repo, tier):
    chk.rule('C12.R1', 'frames of split_matrix_svd (as C11.R1): conditional sort of each side with its own permutation, '
                       'un-sort with argsort of the same idx under the same guard, factors returned in caller order')
    chk.rule('C12.R2', 'blocks of split_matrix_svd (as C11.R2), including singular values and intermediate charges written '
                       'to the same [Dprev:D] slots')
    chk.rule('C12.R3', 'dummy bond of split_matrix_svd (as C11.R3) with one zero singular value')
    chk.rule('C12.R4', 'truncation: one index set from retained_bond_indices(s) restricts u, s, v and q along the '
                       'intermediate axis')
    chk.rule('C12.R7', 'storage type: the factor arrays are allocated with an inexact dtype (integer input is promoted first)')
    chk.rule('C12.R5', 'inputs are never written: retained_bond_indices, split_matrix_svd, split_mps_tensor (effects)')
    chk.rule('C12.R6', 'split_mps_tensor for all three singular-value distributions: leg layout, total exponent 1, charge '
                       'orientation, merge undoes split')
    fi, ba, items = run_block(chk, repo, 'C12', 'bond_ops.split_matrix_svd', 'svd', rule_override={'dtype': 'C12.R7'})
    bounds_rule(chk, repo, 'C12.R2', fi, getattr(ba, 'Dname', 'D'))
    c = ba.counts
    if (c['cond_perm'] < 2 or c['unperm'] < 2 or c['block_store'] < 4 or c['dummy'] < 1) and all(i[2] for i in items):
        raise AnalysisError(f'split_matrix_svd: anchored idioms vanished (counts {c})')
    eng = Engine(repo)
    for q in ('bond_ops.retained_bond_indices', 'bond_ops.split_matrix_svd', 'mps.split_mps_tensor'):
        f2 = repo.func(q)
        res = eng.analyse(f2)
        pw = [(l.describe(), sorted(s)[0]) for l, s in res['writes'].items() if l.is_param()]
        chk.ob('C12.R5', where(repo, f2, f2.node), f'{f2.name} writes none of its arguments', not pw,
               '; '.join(f'{d} at {s}' for d, s in pw[:3]), key=f'C12.R5|{q}')
    split_tensor_rules(chk, repo, 'C12.R6')
    from . import truncrule
    truncrule.rule(chk, repo, 'C12.R8')
    chk.notes['idiom_counts'] = c
    chk.undecided += ['the error identity and the tolerance bound as numerical statements', 'orthonormality of the factors']
    return ('Frame / charge-tag typing of bond_ops.split_matrix_svd (sibling of qr), bond-leg restriction of the truncation, '
            'effects analysis of the three routines, leg-domain rules for split_mps_tensor in all three distributions.',
            'instances = as C11 plus restricted arrays, distributions x {ranks, gauge, merge, charges, label}')
