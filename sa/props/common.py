"""Helpers shared by the per-property rule lists."""
import ast

from ..loader import norm, AnalysisError
from .. import typestate as ts


def where(repo, fi, node):
    return f'pytenet/{fi.module}.py:{fi.qual.split(".", 1)[1]}:{getattr(node, "lineno", fi.node.lineno)}'


def run_id_typestate(chk, repo, rule, fis, reference_sites):
    """Id allocation typestate over the given functions (C05.R1, C07.R1, C17.R1)."""
    alloc = ts.allocating_callee_names(repo)
    total_sites = 0
    results = [(fi, ts.check_ids(repo, fi, alloc)) for fi in fis]
    # `len(container)` as an allocator is fresh only if no constructor of the family leaves a gap in the id range:
    # gaps alone are harmless (events), gaps together with a dense allocator are reported, as is a dense allocator whose
    # family cannot be shown gap-free
    dense = any(kind == 'assumes-dense-ids' for _, r in results for kind, *_ in r['reports'])
    for fi, res in results:
        keep = []
        for rec in res['reports']:
            if rec[0] == 'id-gap' and not dense:
                continue
            if rec[0] == 'assumes-dense-ids':
                gaps = [(f2.qual, r2[1]) for f2, rs in results for r2 in rs['reports'] if r2[0] == 'id-gap']
                if not gaps:
                    continue
                rec = (rec[0], rec[1], rec[2], rec[3] + f'; gaps: {gaps[:3]}')
            keep.append(rec)
        res['reports'] = keep
    for fi, res in results:
        n = res['counter_sites'] + res['literal_sites']
        total_sites += n
        if n == 0:
            raise AnalysisError(f'{fi.qual}: anchored for rule {rule} but contains no id allocation site')
        bad_lines = set()
        for kind, line, text, detail in res['reports']:
            bad_lines.add(line)
            chk.ob(rule, f'pytenet/{fi.module}.py:{fi.qual.split(".", 1)[1]}:{line}',
                   f'{kind}: {text[:120]}', False, detail, key=f'{rule}|{fi.qual}|{kind}|{text}')
        # one discharged obligation per allocation site that was not reported
        for n_ in ast.walk(fi.node):
            if isinstance(n_, ast.Call) and ts.callee_name(n_) in ts.ID_CTORS and n_.lineno not in bad_lines:
                chk.ob(rule, where(repo, fi, n_), f'id fresh at `{norm(n_)[:70]}`', True,
                       'id argument is fresh (assigned or advanced since its last use) on every path',
                       key=f'{rule}|{fi.qual}|site|{norm(n_)}')
            if isinstance(n_, ast.Call) and ts.callee_name(n_) in ts.RENAMERS and len(n_.args) >= 2 and \
                    isinstance(n_.args[1], ast.Name) and n_.args[1].id in res['counters'] and n_.lineno not in bad_lines:
                chk.ob(rule, where(repo, fi, n_), f'new id fresh at `{norm(n_)[:70]}`', True, '',
                       key=f'{rule}|{fi.qual}|site|{norm(n_)}')
    chk.floor(rule, total_sites, reference_sites)
    return total_sites


def top_level_loops(fnode):
    return [s for s in fnode.body if isinstance(s, (ast.For, ast.While))]


def first_ref_is_load(name, stmts):
    """In evaluation order over the statements, is the first reference to `name` a load?"""
    for s in stmts:
        r = _first_ref(name, s)
        if r is not None:
            return r == 'load'
    return False


def _first_ref(name, s):
    # evaluation order for the statement kinds that matter
    if isinstance(s, ast.Assign):
        order = [s.value] + list(s.targets)
    elif isinstance(s, ast.AugAssign):
        order = [s.target, s.value]
    elif isinstance(s, ast.For):
        order = [s.iter, s.target] + s.body + s.orelse
    elif isinstance(s, ast.While):
        order = [s.test] + s.body + s.orelse
    elif isinstance(s, ast.If):
        order = [s.test] + s.body + s.orelse
    else:
        order = [s]
    for part in order:
        if isinstance(part, ast.stmt) and part is not s:
            r = _first_ref(name, part)
            if r is not None:
                return r
            continue
        for n in _walk_eval(part):
            if isinstance(n, ast.Name) and n.id == name:
                return 'load' if isinstance(n.ctx, ast.Load) else 'store'
    return None


def _walk_eval(node):
    yield node
    for c in ast.iter_child_nodes(node):
        yield from _walk_eval(c)


def position_table_view(fnode):
    """A rule-level VIEW (not a behaviour-preserving rewrite): a position table of a sequence,

        P = {x: j for j, x in enumerate(S)}         (P bound once in the function)

    is the ordering of S held in another form.  In the returned copy `P[e]` reads `S.index(e)`, `e in P` reads `e in S`
    and `for x, j in P.items()` reads `for j, x in enumerate(S)`, so that the rules that follow the ROLE of the ordering (which
    sequence defines the columns / positions) see one spelling.  The two agree exactly when the elements of S are pairwise
    distinct, which is what the layer lists of the graph constructions are; the rules only use which sequence is
    consulted, not the value."""
    import copy
    stores = {}
    for n in ast.walk(fnode):
        if isinstance(n, ast.Name) and isinstance(n.ctx, ast.Store):
            stores[n.id] = stores.get(n.id, 0) + 1
    table = {}
    for n in ast.walk(fnode):
        if isinstance(n, ast.Assign) and len(n.targets) == 1 and isinstance(n.targets[0], ast.Name) and \
                isinstance(n.value, ast.DictComp) and len(n.value.generators) == 1 and not n.value.generators[0].ifs:
            g = n.value.generators[0]
            if isinstance(g.iter, ast.Call) and norm(g.iter.func) == 'enumerate' and len(g.iter.args) == 1 and \
                    isinstance(g.iter.args[0], (ast.Name, ast.Subscript, ast.Attribute)) and \
                    isinstance(g.target, ast.Tuple) and len(g.target.elts) == 2 and \
                    norm(g.target.elts[0]) == norm(n.value.value) and norm(g.target.elts[1]) == norm(n.value.key) and \
                    stores.get(n.targets[0].id) == 1:
                table[n.targets[0].id] = g.iter.args[0]
    if not table:
        return fnode, {}

    class V(ast.NodeTransformer):
        def visit_Subscript(self, node):
            self.generic_visit(node)
            if isinstance(node.value, ast.Name) and node.value.id in table and isinstance(node.ctx, ast.Load):
                c = ast.Call(func=ast.Attribute(value=copy.deepcopy(table[node.value.id]), attr='index', ctx=ast.Load()),
                             args=[node.slice], keywords=[])
                return ast.fix_missing_locations(ast.copy_location(c, node))
            return node

        def visit_Compare(self, node):
            self.generic_visit(node)
            if len(node.ops) == 1 and isinstance(node.ops[0], (ast.In, ast.NotIn)) and \
                    isinstance(node.comparators[0], ast.Name) and node.comparators[0].id in table:
                node.comparators = [ast.copy_location(copy.deepcopy(table[node.comparators[0].id]), node.comparators[0])]
                ast.fix_missing_locations(node)
            return node

        def visit_For(self, node):
            self.generic_visit(node)
            it = node.iter
            if isinstance(it, ast.Call) and isinstance(it.func, ast.Attribute) and it.func.attr == 'items' and not it.args and \
                    isinstance(it.func.value, ast.Name) and it.func.value.id in table and \
                    isinstance(node.target, ast.Tuple) and len(node.target.elts) == 2:
                node.target = ast.Tuple(elts=[node.target.elts[1], node.target.elts[0]], ctx=ast.Store())
                node.iter = ast.Call(func=ast.Name(id='enumerate', ctx=ast.Load()),
                                     args=[copy.deepcopy(table[it.func.value.id])], keywords=[])
                ast.fix_missing_locations(node)
            return node
    return V().visit(copy.deepcopy(fnode)), {k: norm(v) for k, v in table.items()}
