"""Path rules on the absint skeleton: id allocation typestate, exactly-once sinks.

State = {facts -> payload}: a small disjunctive completion.  `facts` is a frozenset of
(normalised test text, truth value) for side-effect-free tests over local names; two
branches on the same unmodified test are thereby correlated (needed for the guarded
reuse of the terminal id in OpGraph._insert_subtree).  Worlds with equal facts merge.
"""
import ast

from .absint import Domain, Interp
from .loader import AnalysisError, norm

ID_CTORS = {
    'OpGraphNode': 'node', 'AutOpNode': 'node',
    'OpGraphEdge': 'edge', 'AutOpEdge': 'edge',
}
RENAMERS = {'rename_node_id': 'node', 'rename_edge_id': 'edge'}

MAX_WORLDS = 64

# method names that also exist on builtin containers: a call `x.add(...)` cannot be resolved
# to a repository method by name alone, so such names never enter name-based closures
CONTAINER_METHOD_NAMES = {'add', 'update', 'get', 'pop', 'remove', 'append', 'extend', 'insert', 'index',
                          'copy', 'clear', 'sort', 'reverse', 'count', 'keys', 'values', 'items', 'discard',
                          'put', 'empty', 'fill', 'flip'}


def names_in(node):
    return {n.id for n in ast.walk(node) if isinstance(n, ast.Name)}


def test_is_simple(test):
    for n in ast.walk(test):
        if isinstance(n, (ast.Attribute, ast.Subscript, ast.Lambda, ast.NamedExpr)):
            return False
        if isinstance(n, ast.Call):
            if not (isinstance(n.func, ast.Name) and n.func.id in ('len', 'isinstance', 'int', 'sorted', 'min', 'max')):
                return False
    return True


def assigned_names(target):
    out = set()
    for n in ast.walk(target):
        if isinstance(n, ast.Name) and isinstance(n.ctx, (ast.Store, ast.Del)):
            out.add(n.id)
    return out


def calls_postorder(node):
    """All Call nodes below `node` in evaluation (post) order; nested defs skipped."""
    out = []

    def rec(n):
        if isinstance(n, (ast.Lambda, ast.FunctionDef, ast.ClassDef)):
            return
        for c in ast.iter_child_nodes(n):
            rec(c)
        if isinstance(n, ast.Call):
            out.append(n)
    rec(node)
    return out


def callee_name(call):
    f = call.func
    if isinstance(f, ast.Name):
        return f.id
    if isinstance(f, ast.Attribute):
        return f.attr
    return None


def literal_int(node):
    if isinstance(node, ast.Constant) and isinstance(node.value, int) and not isinstance(node.value, bool):
        return node.value
    if isinstance(node, ast.UnaryOp) and isinstance(node.op, ast.USub):
        v = literal_int(node.operand)
        return None if v is None else -v
    return None


class WorldsDomain(Domain):
    """Payload operations are supplied by subclasses (p_*)."""

    def p_copy(self, p):
        return dict(p)

    def p_join(self, a, b):
        raise NotImplementedError

    def p_stmt(self, node, p, facts):
        return p

    def p_assigned(self, names, p):
        return p

    # ---- Domain interface -------------------------------------------
    def copy(self, st):
        return {k: self.p_copy(v) for k, v in st.items()}

    def join(self, a, b):
        out = {k: self.p_copy(v) for k, v in a.items()}
        for k, v in b.items():
            if k in out:
                out[k] = self.p_join(out[k], v)
            else:
                out[k] = self.p_copy(v)
        if len(out) > MAX_WORLDS:
            # merge everything into the world with the common facts
            common = None
            for k in out:
                common = set(k) if common is None else common & set(k)
            merged = None
            for v in out.values():
                merged = self.p_copy(v) if merged is None else self.p_join(merged, v)
            out = {frozenset(common): merged}
        return out

    def eq(self, a, b):
        return a == b

    def _kill(self, st, names):
        if not names:
            return st
        out = {}
        for facts, p in st.items():
            nf = frozenset((t, v) for (t, v) in facts if not (self._test_names[t] & names))
            p = self.p_assigned(names, p)
            if nf in out:
                out[nf] = self.p_join(out[nf], p)
            else:
                out[nf] = p
        return out

    _test_names = {}

    def stmt(self, node, st):
        out = {}
        for facts, p in st.items():
            q = self.p_stmt(node, self.p_copy(p), facts)
            if q is None:
                continue
            out[facts] = self.p_join(out[facts], q) if facts in out else q
        killed = set()
        if isinstance(node, ast.Assign):
            for t in node.targets:
                killed |= assigned_names(t)
        elif isinstance(node, (ast.AugAssign, ast.AnnAssign)):
            killed |= assigned_names(node.target)
        elif isinstance(node, (ast.FunctionDef, ast.ClassDef)):
            killed.add(node.name)
        return self._kill(out, killed) if out else None

    def branch(self, test, st):
        # evaluate the test expression for events first
        st = self.stmt(ast.Expr(value=test), st)
        if st is None:
            return None, None
        if isinstance(test, ast.Constant):
            return (st, None) if test.value else (None, st)
        simple = test_is_simple(test)
        neg = None
        key = norm(test)
        if isinstance(test, ast.UnaryOp) and isinstance(test.op, ast.Not):
            key = norm(test.operand)
            neg = True
        self._test_names.setdefault(key, names_in(test))
        t_out, f_out = {}, {}

        def put(d, k, p):
            d[k] = self.p_join(d[k], p) if k in d else p
        for facts, p in st.items():
            if simple:
                known = dict(facts).get(key)
                tv, fv = (False, True) if neg else (True, False)
                if known is None:
                    put(t_out, facts | {(key, tv)}, self.p_copy(p))
                    put(f_out, facts | {(key, fv)}, self.p_copy(p))
                elif known == tv:
                    put(t_out, facts, self.p_copy(p))
                else:
                    put(f_out, facts, self.p_copy(p))
            else:
                put(t_out, facts, self.p_copy(p))
                put(f_out, facts, self.p_copy(p))
        return (t_out or None), (f_out or None)

    def loop_bind(self, node, st):
        st = self.stmt(ast.Expr(value=node.iter), st)
        if st is None:
            return None
        return self._kill(st, assigned_names(node.target))

    def on_return(self, node, st):
        if node.value is not None:
            st = self.stmt(ast.Expr(value=node.value), st)
        return st


# ======================================================================
# ID allocation typestate
# ======================================================================
FRESH, USED, REF = 'fresh', 'used', 'ref'


class IdDomain(WorldsDomain):
    def __init__(self, fi, counters, allocating_callees, report):
        self.fi = fi
        self.counters = counters        # names treated as counters
        self.allocating = allocating_callees
        self.report = report            # callable(kind, node, text)
        self.sites = 0
        self.increments = 0

    def p_join(self, a, b):
        out = {}
        for k in set(a) | set(b):
            va, vb = a.get(k), b.get(k)
            if va is None or vb is None:
                out[k] = va or vb       # undefined on one side: keep the defined state
            elif va == vb:
                out[k] = va
            else:
                out[k] = USED           # join(fresh, used) = used ; join(fresh, ref) = used
        return out

    def classify_allocator(self, value):
        """fresh / ref / bad / None(unknown)"""
        if literal_int(value) is not None:
            return FRESH
        if isinstance(value, ast.BinOp) and isinstance(value.op, ast.Add):
            k = literal_int(value.right)
            if k is not None and k >= 1 and self._is_max_keys(value.left):
                return FRESH
        if self._is_max_keys(value):
            return 'bad'
        # len(<container>) [+ k]: fresh only while the ids in the container are 0 .. len-1 without gaps
        base = value.left if isinstance(value, ast.BinOp) and isinstance(value.op, ast.Add) and \
            literal_int(value.right) is not None and literal_int(value.right) >= 0 else value
        if isinstance(base, ast.Call) and isinstance(base.func, ast.Name) and base.func.id == 'len' and len(base.args) == 1 \
                and norm(base.args[0]).split('.')[-1] in ('nodes', 'edges', 'keys()'):
            return 'dense'
        if isinstance(value, ast.Subscript) and norm(value.value).endswith('nid_terminal'):
            return REF
        if isinstance(value, ast.Name) and value.id not in self.counters:
            return REF      # alias of an existing id (e.g. `nid_root = nid_start`)
        return None

    def _is_max_keys(self, node):
        if not (isinstance(node, ast.Call) and isinstance(node.func, ast.Name) and node.func.id == 'max'):
            return False
        ok = False
        for a in node.args:
            if isinstance(a, ast.Call) and isinstance(a.func, ast.Attribute) and a.func.attr == 'keys':
                ok = True
            elif isinstance(a, ast.Attribute) and a.attr in ('nodes', 'edges'):
                ok = True           # iterating a table (a dict) yields its keys
            elif self._is_max_keys(a):
                ok = True
            else:
                return False
        for kw in node.keywords:
            if kw.arg != 'default' or literal_int(kw.value) is None:
                return False
        return ok

    def p_stmt(self, node, p, facts):
        # 1. events in the expression(s), evaluation order
        exprs = []
        if isinstance(node, ast.Assign):
            exprs = [node.value]
        elif isinstance(node, ast.AugAssign):
            exprs = [node.value]
        elif isinstance(node, (ast.Expr, ast.Return)):
            exprs = [node.value] if node.value is not None else []
        elif isinstance(node, ast.Assert):
            exprs = [node.test]
        for e in exprs:
            self._events(e, p)
        # 2. (re)definition of counters
        if isinstance(node, ast.Assign) and len(node.targets) == 1 and isinstance(node.targets[0], ast.Name) and \
                node.targets[0].id in self.counters and isinstance(node.value, ast.BinOp) and \
                isinstance(node.value.op, ast.Add) and \
                ((isinstance(node.value.left, ast.Name) and node.value.left.id == node.targets[0].id and
                  literal_int(node.value.right) is not None) or
                 (isinstance(node.value.right, ast.Name) and node.value.right.id == node.targets[0].id and
                  literal_int(node.value.left) is not None)):
            # c = c + k is the increment c += k
            k_ = node.value.right if isinstance(node.value.left, ast.Name) else node.value.left
            node = ast.copy_location(ast.AugAssign(target=node.targets[0], op=ast.Add(), value=k_), node)
        if isinstance(node, ast.Assign):
            for t in node.targets:
                if isinstance(t, ast.Name) and t.id in self.counters:
                    cls = self.classify_allocator(node.value)
                    if cls is None:
                        raise AnalysisError(
                            f'{self.fi.qual}: allocator expression `{norm(node)}` (line {node.lineno}) '
                            f'is not one of the recognised forms')
                    if cls == 'bad':
                        self.report('allocator-not-above-max', node,
                                    f'`{norm(node)}`: new id is not taken above the maximum existing id')
                        p[t.id] = USED
                    elif cls == 'dense':
                        # an event, judged by the rule that knows who fills the container (gap-free or not)
                        self.report('assumes-dense-ids', node,
                                    f'`{norm(node)}`: the new id is the number of existing ids - fresh only if the existing ids '
                                    f'are consecutive from 0')
                        p[t.id] = FRESH
                    else:
                        p[t.id] = cls
        elif isinstance(node, ast.AugAssign):
            t = node.target
            if isinstance(t, ast.Name) and t.id in self.counters:
                k = literal_int(node.value)
                if isinstance(node.op, ast.Add) and k is not None and k >= 1:
                    if p.get(t.id) == FRESH or k > 1:
                        # the counter is advanced although its current value was never handed out: a gap in the id range
                        self.report('id-gap', node, f'`{norm(node)}`: `{t.id}` is advanced while its current value is unused on '
                                                    f'some path (ids are no longer consecutive)')
                    p[t.id] = FRESH
                    self.increments += 1
                else:
                    raise AnalysisError(f'{self.fi.qual}: counter update `{norm(node)}` not recognised')
        return p

    def _events(self, expr, p):
        in_comp = set()
        for n in ast.walk(expr):
            if isinstance(n, (ast.ListComp, ast.GeneratorExp, ast.SetComp, ast.DictComp)):
                for c in ast.walk(n):
                    if isinstance(c, ast.Call):
                        in_comp.add(id(c))
        for call in calls_postorder(expr):
            name = callee_name(call)
            if name in ID_CTORS or name in RENAMERS:
                arg = None
                if name in ID_CTORS and call.args:
                    arg = call.args[0]
                elif name in RENAMERS and len(call.args) >= 2:
                    arg = call.args[1]
                for kw in call.keywords:
                    if kw.arg in ('nid', 'eid') and name in ID_CTORS:
                        arg = kw.value
                if arg is None:
                    continue
                if isinstance(arg, ast.Name) and arg.id in self.counters:
                    self.sites += 1
                    stt = p.get(arg.id)
                    if id(call) in in_comp:
                        self.report('id-reuse', call,
                                    f'`{norm(call)[:90]}` allocates id `{arg.id}` inside a comprehension '
                                    f'(same id for every element)')
                    elif stt != FRESH:
                        self.report('id-reuse', call,
                                    f'`{norm(call)[:110]}`: id variable `{arg.id}` is {stt or "undefined"} here '
                                    f'(not advanced since its last use on some path)')
                    p[arg.id] = USED
            elif name in self.allocating:
                # callee hands out ids of its own: every cached counter value is stale
                for c in list(p):
                    if p[c] == FRESH:
                        p[c] = USED

    def p_assigned(self, names, p):
        return p


def find_counters(fnode):
    """Names used as first argument of an id constructor (or 2nd of a renamer) that are
    incremented or assigned an allocator expression in this function."""
    used_as_id = set()
    for n in ast.walk(fnode):
        if isinstance(n, ast.Call):
            name = callee_name(n)
            if name in ID_CTORS and n.args and isinstance(n.args[0], ast.Name):
                used_as_id.add(n.args[0].id)
            if name in RENAMERS and len(n.args) >= 2 and isinstance(n.args[1], ast.Name):
                used_as_id.add(n.args[1].id)
    counters, named_literals = set(), {}
    params = {a.arg for a in fnode.args.args}
    for name in used_as_id:
        if name in params:
            continue
        aug = False
        assigns = []
        for n in ast.walk(fnode):
            if isinstance(n, ast.AugAssign) and isinstance(n.target, ast.Name) and n.target.id == name:
                aug = True
            if isinstance(n, ast.Assign):
                for t in n.targets:
                    if isinstance(t, ast.Name) and t.id == name:
                        assigns.append(n.value)
        if not aug and len(assigns) == 1 and literal_int(assigns[0]) is not None:
            named_literals[name] = literal_int(assigns[0])
        elif aug or assigns:
            counters.add(name)
    return counters, named_literals, used_as_id - counters - set(named_literals) - params, used_as_id & params


def check_ids(repo, fi, allocating_callees):
    """Run the id typestate over one function.  Returns dict with reports and counts."""
    fnode = fi.node
    counters, named_literals, unknown, from_params = find_counters(fnode)
    reports = []

    def report(kind, node, text):
        rec = (kind, node.lineno, norm(node)[:160], text)
        if rec not in reports:
            reports.append(rec)
    if unknown:
        raise AnalysisError(f'{fi.qual}: id argument(s) {sorted(unknown)} are neither counters nor literals')
    dom = IdDomain(fi, counters, allocating_callees, report)
    dom._test_names = {}
    init = {frozenset(): {}}
    Interp(dom).run(fnode.body, init)
    # literal ids pairwise distinct per namespace; counters start above literals
    literals = {'node': [], 'edge': []}
    literal_sites = 0
    for n in ast.walk(fnode):
        if isinstance(n, ast.Call) and callee_name(n) in ID_CTORS and n.args:
            ns = ID_CTORS[callee_name(n)]
            v = literal_int(n.args[0])
            if v is None and isinstance(n.args[0], ast.Name) and n.args[0].id in named_literals:
                v = named_literals[n.args[0].id]
            if v is not None:
                literal_sites += 1
                if v in [x for x, _ in literals[ns]]:
                    report('literal-id-duplicate', n, f'literal {ns} id {v} is used twice in {fi.qual}')
                literals[ns].append((v, n))
    # a literal (or never-advanced) id handed to a constructor inside a loop is reused by every iteration
    def _in_loop(root, target, inside=False):
        for c in ast.iter_child_nodes(root):
            if c is target:
                return inside
            r = _in_loop(c, target, inside or isinstance(c, (ast.For, ast.While, ast.ListComp, ast.GeneratorExp,
                                                               ast.SetComp, ast.DictComp)))
            if r is not None:
                return r
        return None
    for ns in literals:
        for v, n in literals[ns]:
            if _in_loop(fnode, n):
                report('id-reuse', n, f'`{norm(n)[:100]}`: the {ns} id {v} is constant but the constructor call sits in a loop '
                                      f'(every iteration would reuse it)')
    inits = {}
    for n in ast.walk(fnode):
        if isinstance(n, ast.Assign):
            for t in n.targets:
                if isinstance(t, ast.Name) and t.id in counters and literal_int(n.value) is not None:
                    inits.setdefault(t.id, []).append((literal_int(n.value), n))
    # which namespace does each counter serve?
    cns = {}
    for n in ast.walk(fnode):
        if isinstance(n, ast.Call) and callee_name(n) in ID_CTORS and n.args and isinstance(n.args[0], ast.Name):
            cns.setdefault(n.args[0].id, set()).add(ID_CTORS[callee_name(n)])
    for c, lst in inits.items():
        for v0, node in lst:
            for ns in cns.get(c, ()):
                for lv, lnode in literals[ns]:
                    if lv >= v0:
                        report('counter-overlaps-literal', node,
                               f'counter `{c}` starts at {v0} but literal {ns} id {lv} is also used')
    # counting sites per function (by evaluation): distinct syntactic sites
    syn_sites = 0
    for n in ast.walk(fnode):
        if isinstance(n, ast.Call):
            nm = callee_name(n)
            if nm in ID_CTORS and n.args and isinstance(n.args[0], ast.Name) and n.args[0].id in counters:
                syn_sites += 1
            if nm in RENAMERS and len(n.args) >= 2 and isinstance(n.args[1], ast.Name) and n.args[1].id in counters:
                syn_sites += 1
    incs = sum(1 for n in ast.walk(fnode) if isinstance(n, ast.AugAssign) and isinstance(n.target, ast.Name)
               and n.target.id in counters)
    return {'reports': reports, 'counter_sites': syn_sites, 'literal_sites': literal_sites,
            'increments': incs, 'counters': sorted(counters), 'param_ids': sorted(from_params)}


def functions_with_id_allocation(repo):
    out = []
    for fi in repo.funcs.values():
        for n in ast.walk(fi.node):
            if isinstance(n, ast.Call) and (callee_name(n) in ID_CTORS):
                out.append(fi)
                break
    return out


def allocating_callee_names(repo):
    """Names of repository functions/methods that (transitively) hand out ids computed from
    the current graph contents (max(keys)+1) or construct id-bearing objects from counters."""
    direct = set()
    for fi in repo.funcs.values():
        counters, _, _, _ = find_counters(fi.node)
        if not counters or fi.name == '__init__' or fi.name in CONTAINER_METHOD_NAMES:
            continue
        # only allocators that read the current graph contents make a caller's counter stale
        dom = IdDomain(fi, counters, set(), lambda *a: None)
        for n in ast.walk(fi.node):
            if isinstance(n, ast.Assign) and any(isinstance(t, ast.Name) and t.id in counters for t in n.targets):
                v = n.value
                if isinstance(v, ast.BinOp):
                    v = v.left
                if dom._is_max_keys(v):
                    direct.add(fi.name)
    # transitive closure by callee name
    changed = True
    names = set(direct)
    while changed:
        changed = False
        for fi in repo.funcs.values():
            if fi.name in names or fi.name == '__init__' or fi.name in CONTAINER_METHOD_NAMES:
                continue
            for n in ast.walk(fi.node):
                if isinstance(n, ast.Call) and callee_name(n) in names:
                    names.add(fi.name)
                    changed = True
                    break
    return names


# ======================================================================
# Exactly-once sink on every non-raising path
# ======================================================================
class OnceDomain(WorldsDomain):
    """Counts executions of a sink call carrying a given parameter, per path."""

    def __init__(self, is_sink):
        self.is_sink = is_sink   # callable(call_node) -> bool

    def p_join(self, a, b):
        lo = min(a['lo'], b['lo'])
        hi = max(a['hi'], b['hi'])
        return {'lo': lo, 'hi': hi, 'sites': a['sites'] | b['sites']}

    def p_copy(self, p):
        return {'lo': p['lo'], 'hi': p['hi'], 'sites': set(p['sites'])}

    def p_stmt(self, node, p, facts):
        exprs = []
        if isinstance(node, (ast.Assign, ast.AugAssign)):
            exprs = [node.value]
        elif isinstance(node, (ast.Expr, ast.Return)):
            exprs = [node.value] if node.value is not None else []
        for e in exprs:
            for call in calls_postorder(e):
                if self.is_sink(call):
                    p['lo'] = min(p['lo'] + 1, 2)
                    p['hi'] = min(p['hi'] + 1, 2)
                    p['sites'].add(call.lineno)
        return p


def check_exactly_once(fi, is_sink):
    dom = OnceDomain(is_sink)
    dom._test_names = {}
    init = {frozenset(): {'lo': 0, 'hi': 0, 'sites': set()}}
    flow = Interp(dom).run(fi.node.body, init)
    exits = []
    if flow.normal is not None:
        exits.append(('end', None, flow.normal))
    for st, r in flow.rets:
        exits.append(('return', r, st))
    results = []
    for kind, node, st in exits:
        for facts, p in st.items():
            results.append({'exit': kind, 'line': getattr(node, 'lineno', fi.node.end_lineno),
                            'facts': sorted(f'{t}={v}' for t, v in facts), 'lo': p['lo'], 'hi': p['hi'],
                            'sites': sorted(p['sites'])})
    return results, len(flow.raises)
