"""Driver: ./check <property id> [--tier quick|thorough] | ./check --replay <file> | ./check --all"""
import argparse
import importlib
import json
import os
import sys
import traceback

from .loader import Repo, AnalysisError
from .report import Check, write_error_evidence

CLAIMED = ['C01', 'C02', 'C03', 'C04', 'C05', 'C06', 'C07', 'C08', 'C09', 'C10', 'C11',
           'C12', 'C13', 'C14', 'C16', 'C17', 'C19']


def anchored_modules(pid, repo):
    """module names of the files a property is anchored in (properties.jsonl)"""
    here = os.path.dirname(os.path.dirname(os.path.abspath(__file__)))
    mods = set()
    with open(os.path.join(here, 'properties.jsonl')) as f:
        for line in f:
            r = json.loads(line)
            if r.get('id') == pid:
                for fn in (r.get('anchors') or {}).get('files') or []:
                    m = os.path.basename(fn)[:-3] if fn.endswith('.py') else None
                    if m and m in repo.modules:
                        mods.add(m)
    return mods or None


def relevant_functions(pid, repo):
    """functions a property answers for: those its anchors name plus everything they may call inside the package
    (sa/anchors.json, tools/mkanchors.py), plus functions the pinned tree does not have in the same modules (a new helper
    belongs to whoever calls it).  None = no restriction (anchors unknown)."""
    here = os.path.dirname(os.path.abspath(__file__))
    try:
        with open(os.path.join(here, 'anchors.json')) as f:
            cl = set(json.load(f)['properties'][pid]['closure'])
    except (OSError, KeyError, ValueError):
        return None
    if not cl:
        return None
    from .loader import known_symbols
    known = known_symbols()
    mods = {q.split('.')[0] for q in cl}
    for q, fi in repo.funcs.items():
        if fi.module in mods:
            k = known.get(fi.module) or {}
            name = f'{fi.cls}.{fi.name}' if fi.cls else fi.name
            if name not in (k.get('functions') or []) and name not in (k.get('methods') or []) and name not in (k.get('locals') or {}):
                cl.add(q)
    return cl


def generic_rules(chk, repo, pid):
    """Every property is quantified over all inputs, all sizes and all call histories.  Three necessary conditions follow
    for the functions it depends on, whatever they compute: nothing survives a call (STATE), stores into preallocated
    typed arrays keep the element type (STORAGE), no read of a local that some path leaves unbound (DEFINED).  C19 is
    about every public operation and takes the whole package."""
    from .props import support
    only = None if pid == 'C19' else relevant_functions(pid, repo)
    mods = anchored_modules(pid, repo) if only is None else {q.split('.')[0] for q in only}
    support.state_rules(chk, repo, f'{pid}.STATE', mods, only=only)
    if pid not in ('C03', 'C05', 'C06', 'C07'):
        support.storage_type_rules(chk, repo, f'{pid}.STORAGE', mods, only=only)
    support.defassign_rules(chk, repo, f'{pid}.DEFINED', mods, only=only)


def run_one(pid, tier, seed, only_key=None):
    try:
        mod = importlib.import_module(f'sa.props.{pid}')
    except ModuleNotFoundError:
        print(f'ANALYSIS-ERROR property={pid} no checker module sa.props.{pid}')
        return 2
    try:
        repo = Repo()
        chk = Check(pid, tier, repo)
        try:
            explanation, rule_text = mod.run(chk, repo, tier)
            generic_rules(chk, repo, pid)
        except AnalysisError as e:
            # obligations that already failed are findings in their own right: they are reported (exit 1) even though the
            # rest of the analysis could not be completed; without any, the run is an analysis error (exit 2)
            if not chk.violations:
                raise
            print(f'[{pid}] analysis stopped after {len(chk.violations)} reported violation(s): {e}')
            chk.notes['analysis_stopped'] = str(e)
            explanation, rule_text = (f'PARTIAL RUN: the analysis stopped at "{e}" after the violations below were '
                                      f'established; rules after that point were not evaluated.', 'instances evaluated before the stop')
        if tier == 'thorough' and only_key is None:
            from . import selftest
            st = selftest.run(pid)
            chk.notes['selftest'] = {k: v for k, v in st.items() if k != 'unmet'}
            chk.notes['selftest_unmet'] = st['unmet'][:10]
            chk.rules[f'{pid}.SELFTEST'] = ('checker self-test: AST-computed single edits of /repo/pytenet in scratch copies; '
                                           'breaking edits must be reported by this property, benign edits must stay silent')
            for smp in st['samples']:
                chk.ob(f'{pid}.SELFTEST', 'scratch copy', f'mutant reported: {smp["variant"][:110]}', True, smp['reported'],
                       key=f'{pid}.SELFTEST|{smp["variant"]}', trivial=True)
            print(f'[{pid}] self-test: {st["variants"]} variants, {st["detected"]}/{st["breaking"]} breaking edits reported, '
                  f'{st["silent_ok"]}/{st["benign"]} benign edits silent')
            if st['unmet']:
                for u in st['unmet'][:5]:
                    print(f'  self-test expectation unmet: {u["variant"]} expected {u["expected"]} got {u["got"]}')
                raise AnalysisError(f'checker self-test failed for {len(st["unmet"])} of {st["variants"]} variants; '
                                    f'the verdict of this run is not to be believed')
        if only_key is not None:
            hits = [o for o in chk.obligations if o['key'] == only_key]
            print(f'replay: {len(hits)} obligation(s) with key {only_key!r}')
            for o in hits:
                print(json.dumps(o, indent=1, default=str))
        return chk.finish(explanation, rule_text, seed)
    except AnalysisError as e:
        msg = str(e)
        print(f'ANALYSIS-ERROR property={pid} {msg}')
        write_error_evidence(pid, tier, msg, seed)
        return 2
    except Exception as e:       # a traceback must never look like a violation
        traceback.print_exc()
        msg = f'{type(e).__name__}: {e}'
        print(f'ANALYSIS-ERROR property={pid} internal error {msg}')
        write_error_evidence(pid, tier, 'internal error ' + msg, seed)
        return 2


def main(argv=None):
    ap = argparse.ArgumentParser()
    ap.add_argument('pid', nargs='?')
    ap.add_argument('--tier', default=os.environ.get('VERIF_TIER', 'quick'), choices=['quick', 'thorough'])
    ap.add_argument('--replay')
    ap.add_argument('--all', action='store_true')
    args = ap.parse_args(argv)
    try:
        seed = int(os.environ.get('VERIF_SEED', '0'))
    except ValueError:
        seed = 0
    if args.replay:
        with open(args.replay) as f:
            v = json.load(f)
        print(f"replaying {v['property']} rule={v['rule']} at {v['where']}: {v['instance']}")
        return run_one(v['property'], v.get('tier', 'quick'), seed, only_key=v['key'])
    if args.all:
        rc = 0
        for pid in CLAIMED:
            r = run_one(pid, args.tier, seed)
            rc = max(rc, r)
        return rc
    if not args.pid:
        ap.error('property id required')
    return run_one(args.pid, args.tier, seed)


if __name__ == '__main__':
    sys.exit(main())
