"""C02 - quantum-number block sparsity over histories (structural part)."""
import ast

from ..loader import norm, AnalysisError
from .. import qtype as qt
from . import legrules as lr
from . import sweeprules as sr
from . import arith
from .C01 import mode_branches, SWEEPS
from .common import where

SWEEP_ROUTINES = ['evolution.integrate_local_singlesite', 'evolution.integrate_local_twosite',
                  'minimization.calculate_ground_state_local_singlesite',
                  'minimization.calculate_ground_state_local_twosite']


def rule_R1(chk, repo):
    rid = 'C02.R1'
    chk.rule(rid, 'every value stored into .qd is an ndarray, into .qD a list of ndarrays, into .qD[k] an ndarray (kind '
                  'lattice evaluated flow-sensitively, callees analysed with the kinds of the actual arguments; the '
                  'dummy-bond label q0[:1] inherits the kind of the argument at each call site)')
    eng = qt.QEngine(repo)
    fs = qt.functions_with_qstores(repo)
    if len(fs) < 10:
        raise AnalysisError(f'only {len(fs)} functions store quantum numbers - anchors vanished?')
    for fi in fs:
        # a private helper that calls one of its own parameters is analysed in the contexts of its callers only (with the
        # function that is actually handed in), not as an entry point with an unknown function
        called_params = {c.func.id for c in ast.walk(fi.node) if isinstance(c, ast.Call) and isinstance(c.func, ast.Name)} & \
            set(fi.params)
        # (when no call is left, every call site has been inlined at load time and is analysed there)
        if called_params and fi.name.startswith('_') and not fi.cls:
            continue
        eng.analyse_entry(fi)
    for key, rec in sorted(eng.store_records.items()):
        fi = rec['fi']
        chk.ob(rid, f'pytenet/{fi.module}.py:{fi.qual.split(".", 1)[1]}:{rec["line"]}',
               f'{fi.name}: `{rec["target"]}` receives {rec["need"]}', rec['ok'],
               f'value `{rec["value"][:60]}` has kind {rec["kind"]}', key=key)
    chk.floor(rid, len(eng.store_records), 36, hard_min=20)
    # constructor calls convert their arguments themselves
    chk.notes['stores_analysed'] = len(eng.store_records)


def rule_R2(chk, repo):
    rid = 'C02.R2'
    chk.rule(rid, 'pairing: every store of a site tensor that carries a new bond leg is in the same assignment as (or '
                  'directly followed by) the store of the label of that bond, produced by the same factorisation, at the '
                  'slot of that bond')
    n = 0
    for q in SWEEP_ROUTINES:
        n += sr.emit(chk, repo, q, {'pairing': rid})
    for q, rank in SWEEPS + [('mps.MPS.compress', 3)]:
        fi = repo.func(q)
        for mode, stmts in mode_branches(fi).items():
            class _Null:
                def ob(self, *a, **k):
                    pass
            cases = sr.bond_coverage(_Null(), repo, rid, fi, stmts, mode)
            for label, m, rep, pre in cases:
                seen = {}
                for kind, node, ok, text in rep.items:
                    if kind != 'pairing':
                        continue
                    base = f'{rid}|{q}|{mode}|{label}|{norm(node)[:60]}|{text[:160]}'
                    seen[base] = seen.get(base, 0) + 1
                    chk.ob(rid, where(repo, fi, node), f'{fi.name}(mode={mode!r}) [{label}]: {text[:150]}', ok, text,
                           key=base + (f'|#{seen[base]}' if seen[base] > 1 else ''))
                    n += 1
    from .C13 import from_vector_rules
    n += from_vector_rules(chk, repo, rid)
    chk.floor(rid, n, 30)


def rule_R3(chk, repo):
    rid = 'C02.R3'
    chk.rule(rid, 'charge orientation: at every block QR / SVD call the row quantum numbers are the signed charges of the '
                  'merged row legs and the column quantum numbers the negated charges of the merged column legs (sparsity '
                  'rule qd + qD_left - qD_right = 0 resp. qd - qd + qD_left - qD_right = 0); every stored label has the '
                  'orientation of the new leg; the updated pair still denotes the old pair')
    n = 0
    for q in lr.LOCAL_STEPS:
        n += lr.check_local_step(chk, rid, repo, q)
    for q in SWEEP_ROUTINES:
        fi = repo.func(q)
        for label, var, stmts in lr.sweep_positions(fi):
            n += lr.check_loop_body(chk, rid, repo, fi, stmts, var, label)
    # the same evaluation at the call sites inside the sweeps of MPS.orthonormalize / MPS.compress (label sign as stored)
    from .C01 import mode_branches
    for q in ('mps.MPS.orthonormalize', 'mps.MPS.compress'):
        fi = repo.func(q)
        for mode, stmts in sorted(mode_branches(fi).items()):
            for s_ in stmts:
                if isinstance(s_, ast.For):
                    n += lr.check_loop_body(chk, rid, repo, fi, s_.body, norm(s_.target), f'mode {mode}', psi='self')
    chk.floor(rid, n, 80)


def rule_R4(chk, repo):
    rid = 'C02.R4'
    chk.rule(rid, 'label order = leg / block order: apply_operator and multiply_mpo flatten the bond labels in the order in '
                  'which the bond legs are merged; sums concatenate labels in the order of the diagonal blocks')
    n = arith.product_rules(chk, repo, rid)
    n += arith.sum_rules(chk, repo, rid)
    chk.floor(rid, n, 20)


def rule_R7(chk, repo):
    """the sparsity mask of site i is computed from the labels of site i"""
    rid = 'C02.R7'
    chk.rule(rid, 'constructors: the loop that enforces the sparsity pattern treats every site independently - no local (mask, '
                  'shape, label) is carried from one site to the next (definite assignment relative to the loop entry), and the '
                  'mask of site i is the outer sum of the labels of that site: qd, (-qd,) qD[i], -qD[i+1]')
    from .. import defassign
    from ..match import pmatch
    n = 0
    for q, pat in (('mps.MPS.__init__', 'qnumber_outer_sum([self.qd, self.qD[__i], -self.qD[__i + 1]])'),
                   ('mpo.MPO.__init__', 'qnumber_outer_sum([self.qd, -self.qd, self.qD[__i], -self.qD[__i + 1]])')):
        fi = repo.func(q)
        loops = [l for l in ast.walk(fi.node) if isinstance(l, ast.For) and
                 any(isinstance(c, ast.Call) and norm(c.func) == 'qnumber_outer_sum' for c in ast.walk(l))]
        if len(loops) != 1:
            raise AnalysisError(f'{q}: masking loop not found')
        loop = loops[0]
        found, nreads = defassign.loop_carried(fi.node, loop)
        bad = {}
        for node, name, why in found:
            bad.setdefault(name, node)
        chk.ob(rid, where(repo, fi, loop), f'{fi.qual}: the masking loop carries no local from site to site ({nreads} reads)', not bad,
               '; '.join(f'`{k}` read at line {v.lineno} may stem from an earlier site' for k, v in sorted(bad.items())),
               key=f'{rid}|{q}|carried')
        calls = [c for c in ast.walk(loop) if isinstance(c, ast.Call) and norm(c.func) == 'qnumber_outer_sum']
        var = norm(loop.target)
        ok = len(calls) == 1 and (pmatch(pat, calls[0]) or {}).get('__i') == var
        chk.ob(rid, where(repo, fi, calls[0]), f'{fi.qual}: the mask of site {var} is built from the labels of site {var}', bool(ok),
               norm(calls[0])[:90], key=f'{rid}|{q}|mask')
        n += 2
    chk.floor(rid, n, 4, hard_min=4)


def run(chk, repo, tier):
    rule_R1(chk, repo)
    rule_R2(chk, repo)
    rule_R3(chk, repo)
    rule_R4(chk, repo)
    from . import support
    support.block_rules(chk, repo, 'C02.R5', ('qr', 'svd'),
                        'block QR / SVD return intermediate quantum numbers consistent with their factors: frames, '
                        'charge tags, block reads / stores, dummy bond, truncation (rules of C11 / C12 re-evaluated)')
    support.ownership_rules(chk, repo, 'C02.R6')
    rule_R7(chk, repo)
    from . import qnrules
    qnrules.qnumber_rules(chk, repo, 'C02.R8')
    chk.assume('class invariant used for loads: X.qd is an ndarray, X.qD a list of ndarrays (it is what the stores establish)')
    chk.undecided += ['that numerical blocks vanish', 'that the total charges of a non-zero state survive',
                      'histories beyond "every operation individually re-establishes label / tensor agreement"']
    return ('Kind analysis of every quantum-number store (found F3), pairing of tensor and label stores in all sweeps, '
            'leg-domain charge orientation at every factorisation call site (functions, in-line blocks of TDVP, two-site '
            'splits), label order vs. leg order for products and sums.',
            'instances = stores, pairing sites per lattice case, factorisation call sites x {rows, columns, label, gauge}, '
            'layout facts of the arithmetic')
