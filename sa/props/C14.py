"""C14 - Lanczos / Arnoldi output sizes (structural part)."""
import ast
from ..defuse import before as _before

from ..loader import norm, AnalysisError
from ..affine import Affine
from ..shapes import ShapeInterp, SV, Ctx, arr, nonneg
from .common import where

PRODUCERS = {'lanczos_iteration': 'krylov.lanczos_iteration', 'arnoldi_iteration': 'krylov.arnoldi_iteration'}
CONSUMERS = ['krylov.eigh_krylov', 'krylov.expm_krylov']


def base_env(fi):
    env = {}
    n = Affine.sym('n')
    for p in fi.params:
        if p == 'Afunc':
            env[p] = SV('func')
        elif p in ('vstart', 'v'):
            env[p] = arr(n)
        elif p == 'numiter':
            env[p] = SV('int', Affine.sym('numiter'))
        elif p == 'numeig':
            env[p] = SV('int', Affine.sym('numeig'))
        else:
            env[p] = SV('scalar')
    return env


def base_ctx():
    # documented domain: numiter >= 1, n >= 1
    return Ctx([Affine.sym('numiter') - Affine.const(1), Affine.sym('n') - Affine.const(1)])


def kfunc(repo, q):
    """the function with behaviour-preserving loop spellings normalised (sa/normal.py)"""
    from ..normal import wrap, enumerate_to_range
    return wrap(repo.func(q), enumerate_to_range)


def krylov_rules(chk, repo, P='C14'):
    chk.rule(f'{P}.R1', 'return shapes: on every return path of lanczos_iteration (full and early) '
                       'len(alpha) = len(beta) + 1 = V.shape[1] and V.shape[0] = len(vstart); on every return path of '
                       'arnoldi_iteration H is square of order V.shape[1] and V.shape[0] = len(vstart).  Extents are '
                       'affine terms in numiter, n and the loop variable; slices count only if their bounds are proved '
                       'to lie inside the allocated extent.')
    chk.rule(f'{P}.R2', 'index and slice bounds: every integer index and slice end inside the iterations is proved '
                       'within the allocated extent from the loop intervals (0 <= j <= numiter-2, 0 <= k <= j) and '
                       'guards (j > 0); stored rows have the shape of their slot.')
    if P != 'C14':
        # (a statement about the consumers; C14 itself speaks about the two iterations only)
        chk.rule(f'{P}.R3', 'consumers: eigh_krylov / expm_krylov are checked against every return record of the producers: '
                           'eigh_tridiagonal(d, e) needs len(e) = len(d) - 1, every `@` needs matching inner extents, '
                           'expm needs a square matrix.')
    records = {}
    n_ret = 0
    for short, q in PRODUCERS.items():
        fi = kfunc(repo, q)
        obs = []

        def report(kind, node, ok, text, fi=fi, obs=obs):
            obs.append((kind, node, ok, text))
        it = ShapeInterp(repo, fi, report)
        rets = it.run(base_env(fi), base_ctx())
        if not rets:
            raise AnalysisError(f'{q}: no return found')
        records[short] = rets
        for kind, node, ok, text in obs:
            if ok is None:
                raise AnalysisError(f'{q}: {text}')
            chk.ob(f'{P}.R2', where(repo, fi, node), f'{fi.name}: {kind} {text[:110]}', ok, text,
                   key=f'{P}.R2|{q}|{kind}|{norm(node)[:80]}|{text[:60]}')
        nsym = Affine.sym('n')
        for r in rets:
            n_ret += 1
            v = r.value
            tag = 'early return' if r.early else 'final return'
            w = where(repo, fi, r.node)
            if short == 'lanczos_iteration':
                ok_form = v.kind == 'tuple' and len(v.data) == 3 and all(x.kind == 'arr' for x in v.data) and \
                    len(v.data[0].data) == 1 and len(v.data[1].data) == 1 and len(v.data[2].data) == 2 and \
                    not any(str(sy).startswith('?') for x in v.data for d in x.data for sy in d.syms())
                if not ok_form:
                    chk.ob(f'{P}.R1', w, f'{fi.name} ({tag}): shapes of (alpha, beta, V) are determined', False,
                           f'returned {v} - a slice bound could not be proved inside the allocated extent',
                           key=f'{P}.R1|{q}|{tag}|form')
                    continue
                a, b, V = v.data
                chk.ob(f'{P}.R1', w, f'{fi.name} ({tag}): len(alpha) == len(beta) + 1', a.data[0] == b.data[0] + Affine.const(1),
                       f'len(alpha) = {a.data[0]}, len(beta) = {b.data[0]}', key=f'{P}.R1|{q}|{tag}|alpha-beta')
                chk.ob(f'{P}.R1', w, f'{fi.name} ({tag}): len(alpha) == V.shape[1]', a.data[0] == V.data[1],
                       f'len(alpha) = {a.data[0]}, V.shape = {tuple(V.data)}', key=f'{P}.R1|{q}|{tag}|alpha-V')
                chk.ob(f'{P}.R1', w, f'{fi.name} ({tag}): V.shape[0] == len(vstart)', V.data[0] == nsym,
                       f'V.shape = {tuple(V.data)}', key=f'{P}.R1|{q}|{tag}|V-n')
                chk.ob(f'{P}.R1', w, f'{fi.name} ({tag}): at least one Lanczos vector is returned',
                       nonneg(a.data[0] - Affine.const(1), r.ctx), f'len(alpha) = {a.data[0]}',
                       key=f'{P}.R1|{q}|{tag}|nonempty')
            else:
                ok_form = v.kind == 'tuple' and len(v.data) == 2 and all(x.kind == 'arr' for x in v.data) and \
                    len(v.data[0].data) == 2 and len(v.data[1].data) == 2 and \
                    not any(str(sy).startswith('?') for x in v.data for d in x.data for sy in d.syms())
                if not ok_form:
                    chk.ob(f'{P}.R1', w, f'{fi.name} ({tag}): shapes of (H, V) are determined', False,
                           f'returned {v} - a slice bound could not be proved inside the allocated extent',
                           key=f'{P}.R1|{q}|{tag}|form')
                    continue
                H, V = v.data
                chk.ob(f'{P}.R1', w, f'{fi.name} ({tag}): H is square', H.data[0] == H.data[1], f'H.shape = {tuple(H.data)}',
                       key=f'{P}.R1|{q}|{tag}|H-square')
                chk.ob(f'{P}.R1', w, f'{fi.name} ({tag}): order of H == V.shape[1]', H.data[0] == V.data[1],
                       f'H.shape = {tuple(H.data)}, V.shape = {tuple(V.data)}', key=f'{P}.R1|{q}|{tag}|H-V')
                chk.ob(f'{P}.R1', w, f'{fi.name} ({tag}): V.shape[0] == len(vstart)', V.data[0] == nsym,
                       f'V.shape = {tuple(V.data)}', key=f'{P}.R1|{q}|{tag}|V-n')
                chk.ob(f'{P}.R1', w, f'{fi.name} ({tag}): at least one Arnoldi vector is returned',
                       nonneg(H.data[0] - Affine.const(1), r.ctx), f'order = {H.data[0]}',
                       key=f'{P}.R1|{q}|{tag}|nonempty')
        # both kinds of return must exist (full and early)
        kinds = {r.early for r in rets}
        chk.ob(f'{P}.R1', where(repo, fi, fi.node), f'{fi.name}: early-termination and full return paths both analysed',
               kinds == {True, False}, f'return paths found: {len(rets)}', key=f'{P}.R1|{q}|paths')
    chk.floor(f'{P}.R1', n_ret, 4)
    # consumers against every return record
    n_cons = 0
    for q in (CONSUMERS if P != 'C14' else []):
        fi = kfunc(repo, q)
        used = {c.func.id for c in ast.walk(fi.node) if isinstance(c, ast.Call) and isinstance(c.func, ast.Name)
                and c.func.id in PRODUCERS}
        if not used:
            raise AnalysisError(f'{q}: does not call a Krylov iteration any more')
        for prod in sorted(used):
            for r in records[prod]:
                obs = []

                def report(kind, node, ok, text, obs=obs):
                    obs.append((kind, node, ok, text))
                summ = {p: records[p][-1].value for p in PRODUCERS}
                summ[prod] = r.value

                class CI(ShapeInterp):
                    def call(self, e, env, ctx):
                        if isinstance(e.func, ast.Name) and e.func.id in summ:
                            for a in e.args:
                                self.ev(a, env, ctx)
                            return summ[e.func.id]
                        return super().call(e, env, ctx)
                it = CI(repo, fi, report)
                ctx = Ctx(r.ctx.facts, r.ctx.loops)
                it.run(base_env(fi), ctx)
                tag = 'early' if r.early else 'full'
                for kind, node, ok, text in obs:
                    if kind not in ('consumer', 'matmul'):
                        continue
                    if ok is None:
                        # shapes of the producer result are undetermined: reported under R1 already
                        continue
                    n_cons += 1
                    chk.ob(f'{P}.R3', where(repo, fi, node), f'{fi.name} with the {tag} result of {prod}: {text[:100]}', ok,
                           text, key=f'{P}.R3|{q}|{prod}|{tag}|{norm(node)[:70]}')
    if P != 'C14':
        chk.floor(f'{P}.R3', n_cons, 10)
    dtype_rule(chk, repo, f'{P}.R4')
    linearity_rule(chk, repo, f'{P}.R6', consumers=(P != 'C14'))
    bookkeeping_rule(chk, repo, f'{P}.R7')
    written_rows_rule(chk, repo, f'{P}.R8')
    scale_rule(chk, repo, f'{P}.R9')
    from . import support
    only = {'krylov.lanczos_iteration', 'krylov.arnoldi_iteration'} if P == 'C14' else None
    n5 = support.defassign_rules(chk, repo, f'{P}.R5', {'krylov'}, {}, only=only)
    chk.floor(f'{P}.R5', n5, 2 if only else 4, hard_min=2 if only else 4)
    return n_ret, n_cons


def written_rows_rule(chk, repo, rid):
    """the basis handed back on early termination consists of exactly the vectors computed so far"""
    from ..affine import Affine, try_affine
    chk.rule(rid, 'written basis rows: the iterations store the start vector in row 0 of the basis array and one new vector per '
                  'pass of the main loop; wherever a function returns, the number of basis vectors it hands back (the extent of '
                  'the slice of the basis, through the local that holds it) equals the number of rows written on the way there '
                  '- by induction over the loop: row e(j) is written in pass j and e(first - 1) is the row of the start vector - '
                  'so an early termination neither drops a computed vector nor returns an unwritten (zero) one')
    one = Affine.const(1)
    n = 0
    for q in PRODUCERS.values():
        fi = kfunc(repo, q)
        body = fi.node.body
        alloc = [s for s in body if isinstance(s, ast.Assign) and isinstance(s.targets[0], ast.Name) and
                 isinstance(s.value, ast.Call) and norm(s.value.func) in ('np.zeros', 'np.empty') and s.value.args and
                 isinstance(s.value.args[0], ast.Tuple) and len(s.value.args[0].elts) == 2 and
                 norm(s.value.args[0].elts[1]).startswith('len(')]
        if len(alloc) != 1:
            raise AnalysisError(f'{q}: allocation of the basis array not found')
        V = alloc[0].targets[0].id
        cap = try_affine(alloc[0].value.args[0].elts[0])

        def row_store(s_):
            """V[e] = ... -> affine e"""
            if isinstance(s_, ast.Assign) and len(s_.targets) == 1 and isinstance(s_.targets[0], ast.Subscript) and \
                    norm(s_.targets[0].value) == V and not isinstance(s_.targets[0].slice, (ast.Tuple, ast.Slice)):
                return try_affine(s_.targets[0].slice)
            return None
        init = [row_store(s_) for s_ in body if row_store(s_) is not None]
        loops = [s_ for s_ in body if isinstance(s_, ast.For) and any(row_store(x) is not None for x in s_.body)]
        if len(init) != 1 or len(loops) != 1 or not isinstance(loops[0].target, ast.Name):
            raise AnalysisError(f'{q}: start-vector store / main loop of the iteration not found')
        w0 = init[0]
        lp = loops[0]
        j = lp.target.id
        from .arith import _loop_range
        rng = _loop_range(lp.iter)
        if rng is None or rng[2] != 1:
            raise AnalysisError(f'{q}: main loop `{norm(lp.iter)}` is not an ascending range')
        first, last = rng[0], rng[1]
        stores = [(k, row_store(x)) for k, x in enumerate(lp.body) if row_store(x) is not None]
        if len(stores) != 1 or stores[0][1].coeff(j) != 1:
            raise AnalysisError(f'{q}: expected one store of a new basis row per pass')
        ps, e = stores[0]
        # a `break` at a fixed pass in front of the store ends the writing there: `if j == X: break`
        jnames = {}
        for s_ in body:
            if isinstance(s_, ast.Assign) and len(s_.targets) == 1 and isinstance(s_.targets[0], ast.Name):
                a_ = try_affine(s_.value, jnames)
                if a_ is not None:
                    jnames[s_.targets[0].id] = a_
        for x in lp.body[:ps]:
            if isinstance(x, ast.If) and not x.orelse and x.body and isinstance(x.body[-1], ast.Break) and \
                    isinstance(x.test, ast.Compare) and len(x.test.ops) == 1 and isinstance(x.test.ops[0], (ast.Eq, ast.GtE)):
                l_, r_ = try_affine(x.test.left, jnames), try_affine(x.test.comparators[0], jnames)
                if l_ is not None and r_ is not None and l_ == Affine.sym(j):
                    d = r_ - last
                    if d.is_const() and d.c <= 0:
                        last = r_ - one
        w = where(repo, fi, lp)
        chk.ob(rid, w, f'{fi.name}: the row written in the first pass follows the row of the start vector',
               e.subst(j, first) == w0 + one, f'start vector in row {w0}, first pass writes row {e.subst(j, first)}',
               key=f'{rid}|{q}|base')
        n += 1

        def count_of(ret, blk, k):
            """extent of the basis slice in a return statement, through locals assigned in the same block before it"""
            for x in ast.walk(ret.value):
                if isinstance(x, ast.Subscript) and norm(x.value) == V:
                    sl = x.slice.elts[0] if isinstance(x.slice, ast.Tuple) else x.slice
                    if isinstance(sl, ast.Slice) and sl.lower is None and sl.upper is not None:
                        env = {}
                        for s_ in blk[:k]:
                            if isinstance(s_, ast.Assign) and len(s_.targets) == 1 and isinstance(s_.targets[0], ast.Name):
                                a_ = try_affine(s_.value, env)
                                if a_ is not None:
                                    env[s_.targets[0].id] = a_
                        return try_affine(sl.upper, env)
                    return None
            for x in ast.walk(ret.value):
                if isinstance(x, ast.Name) and x.id == V:
                    return 'whole'
            return None
        # returns inside the loop
        found = 0
        for k, s_ in enumerate(lp.body):
            for blk in ([s_.body, s_.orelse] if isinstance(s_, ast.If) else []):
                for kk, r in enumerate(blk):
                    if isinstance(r, ast.Return) and r.value is not None:
                        written = (e - one) if k < ps else e          # rows 0 .. written are there
                        c = count_of(r, blk, kk)
                        ok = c is not None and c != 'whole' and c == written + one
                        chk.ob(rid, where(repo, fi, r), f'{fi.name}: early return in pass {j} hands back the {written + one} vectors '
                               f'written so far', ok, f'returns {c} vector(s); rows 0..{written} are written at that point',
                               key=f'{rid}|{q}|early|{k < ps}')
                        n += 1
                        found += 1
        # return after the loop: the whole array, all rows written
        tail = body[body.index(lp) + 1:]
        for kk, r in enumerate(tail):
            if isinstance(r, ast.Return) and r.value is not None:
                c = count_of(r, tail, kk)
                written = e.subst(j, last)
                full = cap if c == 'whole' else c
                ok = full is not None and full == written + one
                chk.ob(rid, where(repo, fi, r), f'{fi.name}: the final return hands back all {written + one} written vectors', ok,
                       f'returns {full} vector(s); rows 0..{written} are written after the loop', key=f'{rid}|{q}|final')
                n += 1
                found += 1
        if not found:
            raise AnalysisError(f'{q}: no return statement handing back the basis found')
    return n


def scale_rule(chk, repo, rid):
    """comparisons inside the iterations are between quantities of the same homogeneity degree in the start vector"""
    chk.rule(rid, 'scale invariance of the iterations: the start vector is normalised first, so every quantity computed afterwards '
                  'has homogeneity degree 0 in it (the map is linear) while its norm has degree 1; every comparison inside the '
                  'iterations - in particular the breakdown test - is between quantities of the same degree, so that rescaling the '
                  'start vector cannot change which vectors are produced (degree typing over the function body)')
    n = 0
    for q in PRODUCERS.values():
        fi = kfunc(repo, q)
        vs = fi.params[1]
        afunc = fi.params[0]
        env = {vs: 1}

        def deg(e):
            if isinstance(e, ast.Constant):
                return 0 if isinstance(e.value, (int, float, complex)) else None
            if isinstance(e, ast.Name):
                return env.get(e.id, 0 if e.id in fi.params and e.id != vs else None)
            if isinstance(e, ast.Attribute):
                if e.attr in ('real', 'imag', 'T'):
                    return deg(e.value)
                if e.attr in ('eps', 'shape', 'size', 'dtype'):
                    return 0
                return None
            if isinstance(e, ast.Subscript):
                return deg(e.value)
            if isinstance(e, ast.UnaryOp):
                return deg(e.operand)
            if isinstance(e, ast.IfExp):
                a, b = deg(e.body), deg(e.orelse)
                if isinstance(e.orelse, ast.Constant) and e.orelse.value == 0:
                    return a
                return a if a == b else None
            if isinstance(e, ast.BinOp):
                a, b = deg(e.left), deg(e.right)
                if a is None or b is None:
                    return None
                if isinstance(e.op, ast.Mult):
                    return a + b
                if isinstance(e.op, ast.Div):
                    return a - b
                if isinstance(e.op, (ast.Add, ast.Sub)):
                    if isinstance(e.left, ast.Constant) and e.left.value == 0:
                        return b
                    if isinstance(e.right, ast.Constant) and e.right.value == 0:
                        return a
                    return a if a == b else None
                if isinstance(e.op, ast.Pow) and isinstance(e.right, ast.Constant) and isinstance(e.right.value, (int, float)):
                    return a * e.right.value
                return None
            if isinstance(e, ast.Call):
                f = norm(e.func)
                if f in ('len', 'np.finfo', 'range', 'int', 'float'):
                    return 0
                if f in ('np.linalg.norm', 'abs', 'np.abs', 'np.real', 'np.conj', 'np.sqrt') and e.args:
                    d = deg(e.args[0])
                    return None if d is None else (d / 2 if f == 'np.sqrt' else d)
                if f in ('np.vdot', 'np.dot', 'np.inner') and len(e.args) == 2:
                    a, b = deg(e.args[0]), deg(e.args[1])
                    return None if a is None or b is None else a + b
                if f == afunc and e.args:
                    return deg(e.args[0])
                if f in ('np.zeros', 'np.empty', 'np.ones', 'np.identity'):
                    return 0
                return None
            return None
        found = []

        def walk(stmts):
            for s_ in stmts:
                if isinstance(s_, ast.Assign) and len(s_.targets) == 1:
                    d = deg(s_.value)
                    t = s_.targets[0]
                    if isinstance(t, ast.Name):
                        env[t.id] = d
                    elif isinstance(t, ast.Subscript) and isinstance(t.value, ast.Name):
                        # a store into an array: the array keeps its degree if it agrees (allocations have degree 0 = "any")
                        cur = env.get(t.value.id)
                        if cur in (0, None) or cur == d:
                            env[t.value.id] = d if d is not None else cur
                elif isinstance(s_, ast.AugAssign) and isinstance(s_.target, ast.Name):
                    pass
                elif isinstance(s_, ast.For):
                    walk(s_.body)
                    walk(s_.body)           # second pass: values carried from one pass to the next
                elif isinstance(s_, ast.If):
                    for c in ast.walk(s_.test):
                        if isinstance(c, ast.Compare) and len(c.ops) == 1 and isinstance(c.ops[0], (ast.Lt, ast.LtE, ast.Gt, ast.GtE)):
                            a, b = deg(c.left), deg(c.comparators[0])
                            if a is not None and b is not None and not any(c is x[0] for x in found):
                                found.append((c, a, b))
                    walk(s_.body)
                    walk(s_.orelse)
        walk(fi.node.body)
        seen = set()
        for c, a, b in found:
            if id(c) in seen:
                continue
            seen.add(id(c))
            names = {x.id for x in ast.walk(c) if isinstance(x, ast.Name)}
            if names <= {'j', 'k', 'numiter'} | {p for p in fi.params if p != vs}:
                continue                # index tests
            chk.ob(rid, where(repo, fi, c), f'{fi.name}: `{norm(c)[:60]}` compares quantities of the same degree in the start vector',
                   a == b, f'left side has degree {a}, right side degree {b}', key=f'{rid}|{q}|{norm(c)[:60]}')
            n += 1
    return n


REAL_REDUCTIONS = ('np.linalg.norm', 'abs', 'np.abs')


def linearity_rule(chk, repo, rid, consumers=True):
    """exp(dt A) v is linear in v while the iterations normalise their start vector: the norm must be put back"""
    if not consumers:
        chk.rule(rid, 'both iterations divide their start vector by its 2-norm before it becomes the first basis vector '
                      '(orthonormal vectors start with a unit vector)')
    else:
        chk.rule(rid, 'linearity in the start vector: both iterations normalise their start vector before it enters the basis; '
                  'every return path of expm_krylov is homogeneous of degree 1 in v (degree algebra: basis, coefficients and '
                  'functions of them have degree 0, norm(v) and v degree 1, products add) - the factor norm(v) is restored '
                  'exactly once on every path, including shortcuts for small Krylov spaces')
    n = 0
    for q in ('krylov.lanczos_iteration', 'krylov.arnoldi_iteration'):
        fi = kfunc(repo, q)
        v = fi.params[1]
        nrm = [s_.targets[0].id for s_ in fi.node.body if isinstance(s_, ast.Assign) and isinstance(s_.targets[0], ast.Name)
               and norm(s_.value) in (f'np.linalg.norm({v})',)]
        normalised = [s_ for s_ in fi.node.body if isinstance(s_, ast.Assign) and norm(s_.targets[0]) == v and
                      any(norm(s_.value) == f'{v} / {m}' for m in nrm)]
        first_store = [s_ for s_ in fi.node.body if isinstance(s_, ast.Assign) and isinstance(s_.targets[0], ast.Subscript)
                       and norm(s_.value) == v]
        ok = len(normalised) == 1 and len(first_store) == 1 and _before(fi.node, normalised[0], first_store[0])
        chk.ob(rid, where(repo, fi, normalised[0] if normalised else fi.node), f'{fi.name}: the start vector is divided by its '
               f'2-norm before it becomes the first basis vector', ok, '', key=f'{rid}|{q}|normalised')
        n += 1
    if not consumers:
        chk.floor(rid, n, 2, hard_min=2)
        return n
    fi = kfunc(repo, 'krylov.expm_krylov')
    vname = fi.params[1]

    def deg(e, env):
        if isinstance(e, ast.Name):
            return env.get(e.id, 0 if e.id != vname else 1)
        if isinstance(e, ast.Constant):
            return 0
        if isinstance(e, ast.Call):
            f = norm(e.func)
            if f == 'np.linalg.norm' and len(e.args) == 1:
                return deg(e.args[0], env)
            if f in ('np.exp', 'expm', 'np.conj', 'np.diag', 'np.array'):
                d = deg(e.args[0], env)
                if f in ('np.exp', 'expm'):
                    return 0 if d == 0 else None
                return d
            return None
        if isinstance(e, ast.BinOp):
            l, r = deg(e.left, env), deg(e.right, env)
            if l is None or r is None:
                return None
            if isinstance(e.op, (ast.Mult, ast.MatMult)):
                return l + r
            if isinstance(e.op, ast.Div):
                return l - r
            if isinstance(e.op, (ast.Add, ast.Sub)):
                return l if l == r else None
            return None
        if isinstance(e, ast.Subscript):
            return deg(e.value, env)
        if isinstance(e, ast.Attribute) and e.attr in ('T', 'real', 'imag'):
            return deg(e.value, env)
        if isinstance(e, ast.UnaryOp):
            return deg(e.operand, env)
        return None

    def walk(stmts, env):
        nonlocal n
        env = dict(env)
        for s_ in stmts:
            if isinstance(s_, ast.Assign):
                tg = s_.targets[0]
                if isinstance(tg, ast.Tuple) and isinstance(s_.value, ast.Call) and \
                        norm(s_.value.func) in ('lanczos_iteration', 'arnoldi_iteration', 'eigh_tridiagonal', 'np.linalg.eigh',
                                                'np.linalg.eig'):
                    for t in tg.elts:
                        env[norm(t)] = 0
                elif isinstance(tg, ast.Name):
                    env[tg.id] = deg(s_.value, env)
            elif isinstance(s_, ast.If):
                walk(s_.body, env)
                walk(s_.orelse, env)
            elif isinstance(s_, ast.Return):
                d = deg(s_.value, env)
                chk.ob(rid, where(repo, fi, s_), f'expm_krylov: `{norm(s_)[:80]}` is homogeneous of degree 1 in `{vname}`', d == 1,
                       f'degree {d}' if d is not None else 'degree not determined', key=f'{rid}|expm|{n}')
                n += 1
    walk(fi.node.body, {})
    chk.floor(rid, n, 4, hard_min=4)
    return n


def bookkeeping_rule(chk, repo, rid):
    """Gram-Schmidt bookkeeping: a coefficient that has been subtracted from the residual is never overwritten"""
    chk.rule(rid, 'projection bookkeeping: inside one outer iteration, a coefficient slot (alpha[j], H[k, j]) whose value has '
                  'been used to update the residual `w -= c * V[k]` is not assigned again with `=` (a further projection on '
                  'the same vector must be accumulated with `+=`): the returned coefficient is the total projection removed, '
                  'which is what makes the projected map equal the returned matrix')
    n = 0
    for q in ('krylov.lanczos_iteration', 'krylov.arnoldi_iteration'):
        fi = kfunc(repo, q)
        resid = {norm(s_.targets[0]) for s_ in ast.walk(fi.node) if isinstance(s_, ast.Assign) and
                 isinstance(s_.value, ast.Call) and norm(s_.value.func) == fi.params[0] and isinstance(s_.targets[0], ast.Name)}
        outer = [l for l in fi.node.body if isinstance(l, ast.For)]
        if not resid or not outer:
            raise AnalysisError(f'{q}: residual vector / iteration loop not found')
        bad = []
        nupd = 0

        def walk(stmts, consumed):
            nonlocal nupd
            for s_ in stmts:
                if isinstance(s_, ast.AugAssign) and norm(s_.target) in resid:
                    nupd += 1
                    for x in ast.walk(s_.value):
                        if isinstance(x, ast.Subscript) and isinstance(x.value, ast.Name) and norm(x.value) not in resid \
                                and not norm(x.value).startswith('V'):
                            consumed.add(norm(x))
                elif isinstance(s_, ast.Assign):
                    for t in s_.targets:
                        if isinstance(t, ast.Subscript) and norm(t) in consumed:
                            bad.append((s_, norm(t)))
                elif isinstance(s_, (ast.For, ast.While)):
                    walk(s_.body, consumed)
                elif isinstance(s_, ast.If):
                    walk(s_.body, consumed)
                    walk(s_.orelse, consumed)
        for l in outer:
            walk(l.body, set())
        chk.ob(rid, where(repo, fi, bad[0][0] if bad else outer[0]), f'{fi.name}: no coefficient is overwritten after it was '
               f'subtracted from the residual ({nupd} residual updates)', not bad,
               '; '.join(f'`{norm(b)[:50]}` (line {b.lineno}) overwrites `{t}`, which was already used to update the residual'
                         for b, t in bad[:2]), key=f'{rid}|{q}')
        if nupd == 0:
            raise AnalysisError(f'{q}: no residual update found')
        n += 1
    return n


def dtype_rule(chk, repo, rid):
    """arrays that store (non-reduced) results of the matrix-free map must be complex: the map may return complex vectors
    for real input"""
    chk.rule(rid, 'storage type: every array that receives values derived from Afunc(.) other than real reductions (norm, '
                  '.real) is allocated with dtype=complex, independently of the dtype of the start vector')
    n = 0
    for q in ('krylov.lanczos_iteration', 'krylov.arnoldi_iteration'):
        fi = kfunc(repo, q)
        tainted = set()
        changed = True
        while changed:
            changed = False
            for s_ in ast.walk(fi.node):
                if isinstance(s_, (ast.Assign, ast.AugAssign)):
                    val = s_.value
                    tg = s_.targets if isinstance(s_, ast.Assign) else [s_.target]
                    src = any(isinstance(c, ast.Call) and norm(c.func) == 'Afunc' for c in ast.walk(val)) or \
                        any(isinstance(x, ast.Name) and x.id in tainted for x in ast.walk(val))
                    if src:
                        for t in tg:
                            if isinstance(t, ast.Name) and t.id not in tainted:
                                tainted.add(t.id)
                                changed = True
        allocs = {}
        for s_ in ast.walk(fi.node):
            if isinstance(s_, ast.Assign) and isinstance(s_.targets[0], ast.Name) and isinstance(s_.value, ast.Call) and \
                    norm(s_.value.func) == 'np.zeros':
                dt = [k for k in s_.value.keywords if k.arg == 'dtype']
                allocs[s_.targets[0].id] = (norm(dt[0].value) if dt else None, s_)
        for s_ in ast.walk(fi.node):
            if isinstance(s_, ast.Assign) and isinstance(s_.targets[0], ast.Subscript) and \
                    isinstance(s_.targets[0].value, ast.Name) and s_.targets[0].value.id in allocs:
                v = s_.value
                if not any(isinstance(x, ast.Name) and x.id in tainted for x in ast.walk(v)):
                    continue
                def real_valued(e):
                    """the expression is real whatever the map returns"""
                    if isinstance(e, ast.Attribute) and e.attr in ('real', 'imag'):
                        return True
                    if isinstance(e, ast.Call) and norm(e.func) in set(REAL_REDUCTIONS) | {'np.real', 'np.imag', 'np.abs', 'np.absolute',
                                                                                     'abs', 'float'}:
                        return True
                    if isinstance(e, ast.Call) and norm(e.func) in ('np.sqrt', 'np.square', 'np.exp', 'np.maximum', 'np.minimum',
                                                                    'max', 'min', 'np.hypot') and e.args and not e.keywords:
                        return all(real_valued(a) for a in e.args)         # real in, real (or nan) out
                    if isinstance(e, ast.Constant):
                        return isinstance(e.value, (int, float)) and not isinstance(e.value, bool)
                    if isinstance(e, ast.BinOp):
                        return real_valued(e.left) and real_valued(e.right)
                    if isinstance(e, ast.UnaryOp):
                        return real_valued(e.operand)
                    if isinstance(e, ast.Subscript) and isinstance(e.value, ast.Name) and e.value.id in allocs and \
                            allocs[e.value.id][0] in (None, 'float'):
                        return True                                        # an entry of a real-allocated array
                    return False
                if real_valued(v):
                    continue
                name = s_.targets[0].value.id
                dt, alloc = allocs[name]
                chk.ob(rid, where(repo, fi, alloc), f'{fi.name}: `{name}` receives `{norm(v)[:40]}` and is allocated complex',
                       dt == 'complex', f'allocation `{norm(alloc.value)[:70]}`', key=f'{rid}|{q}|{name}|{norm(v)[:40]}')
                n += 1
    chk.floor(rid, n, 3)
    return n


def run(chk, repo, tier):
    krylov_rules(chk, repo, 'C14')
    chk.assume('A-linear-map: the matrix-free callback returns a vector of the length of its argument')
    chk.assume('documented domain: numiter >= 1, len(vstart) >= 1')
    chk.undecided += ['orthonormality of the Krylov vectors', 'realness / positivity of the coefficients',
                      'the projected-map relation itself']
    return ('Symbolic shape analysis of krylov.py: array extents as affine terms in numiter, n and loop variables; '
            'index/slice bounds decided from loop intervals (Farkas combination of the interval facts); return shapes of '
            'every path (including early termination) compared; consumers re-analysed against every producer return '
            'record.', 'instances = returns x shape equations, index/slice sites, consumer call sites x producer return '
                       'records; distinct = distinct keys')
