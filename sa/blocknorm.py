"""Normalising pre-pass for the block engine (sa/block.py).

The engine recognises one spelling of each step of bond_ops.qr / split_matrix_svd.  Behaviour-preserving variants of
those spellings are rewritten here into the canonical one before the engine runs, so that a harmless clean-up of the
routine neither ends in an analysis error nor is reported.  Every rewrite is an equivalence of Python / NumPy
semantics on the values involved (2-D arrays, 1-D integer vectors, integer counters); positions of the original
nodes are kept for the reports.

  N1  X = X + e, X = e + X (ints)            ->  X += e
  N2  a, b = x, y   (independent)            ->  a = x ; b = y
  N3  m, n = A.shape ; m = A.shape[0]        ->  uses of m, n replaced by A.shape[0], A.shape[1]
  N5  N = D + e ... [D:N] ... D = N          ->  P = D ; D += e ... [P:D] ...          (counter-next idiom in a loop)
  N6  X = X[e] on a 2-D array                ->  X = X[e, :]
  N7  spellings of "empty" and "not the identity permutation" guards -> len(Q) == 0, np.any(P - np.arange(len(P)))
  N8  np.flatnonzero(c), np.nonzero(c)[0]    ->  np.where(c)[0]
  N10 np.take(X, p, axis=k) without out=     ->  X[p, :] / X[:, p]
"""
import ast
import copy

from .loader import norm


def _parse(text):
    return ast.parse(text, mode='eval').body


def _loc(new, old):
    ast.copy_location(new, old)
    ast.fix_missing_locations(new)
    return new


class _Subst(ast.NodeTransformer):
    def __init__(self, m):
        self.m = m

    def visit_Name(self, node):
        if isinstance(node.ctx, ast.Load) and node.id in self.m:
            return _loc(copy.deepcopy(self.m[node.id]), node)
        return node


def _stores(fn):
    out = {}
    for n in ast.walk(fn):
        if isinstance(n, ast.Name) and isinstance(n.ctx, ast.Store):
            out[n.id] = out.get(n.id, 0) + 1
    return out


_counter = [0]


def _inline_helpers(fn, helpers):
    """N0: `t = helper(a, b)` / `t1, t2 = helper(a, b)` with a straight-line helper of the same module: the helper's
    assignments are spliced in (its locals renamed apart, formals replaced by the actual argument expressions, which
    must be names), the returned expression(s) assigned to the target(s)"""
    changed = True
    rounds = 0
    while changed and rounds < 3:
        changed = False
        rounds += 1
        for blk in _blocks(fn):
            for i, s in enumerate(list(blk)):
                if not (isinstance(s, ast.Assign) and len(s.targets) == 1 and isinstance(s.value, ast.Call) and
                        isinstance(s.value.func, ast.Name) and s.value.func.id in helpers and not s.value.keywords and
                        all(isinstance(a, ast.Name) for a in s.value.args)):
                    continue
                h = helpers[s.value.func.id]
                body = [b for b in h.body if not (isinstance(b, ast.Expr) and isinstance(b.value, ast.Constant))
                        and not isinstance(b, ast.Assert)]
                if not body or not isinstance(body[-1], ast.Return) or body[-1].value is None or \
                        not all(isinstance(b, ast.Assign) and len(b.targets) == 1 and isinstance(b.targets[0], ast.Name)
                                for b in body[:-1]) or len(h.args.args) != len(s.value.args):
                    continue
                _counter[0] += 1
                tag = f'_h{_counter[0]}'
                ren = {a.arg: copy.deepcopy(v) for a, v in zip(h.args.args, s.value.args)}
                for b in body[:-1]:
                    ren[b.targets[0].id] = ast.Name(id=b.targets[0].id + tag, ctx=ast.Load())
                new = []
                for b in body[:-1]:
                    v = _Subst(ren).visit(copy.deepcopy(b.value))
                    new.append(_loc(ast.Assign(targets=[ast.Name(id=b.targets[0].id + tag, ctx=ast.Store())], value=v), s))
                rv = _Subst(ren).visit(copy.deepcopy(body[-1].value))
                new.append(_loc(ast.Assign(targets=s.targets, value=rv), s))
                k = blk.index(s)
                blk[k:k + 1] = new
                changed = True
    return fn


def _none_sentinel_exprs(fn):
    """N11b: `X = E if G else None` (E a name bound just before, G a test on E) with later tests `X is not None` / `X is None`:
    X becomes E itself (the definition of E is renamed to X) and the tests become G / not G with X for E."""
    for blk in list(_blocks(fn)):
        for k, s in enumerate(list(blk)):
            if not (isinstance(s, ast.Assign) and len(s.targets) == 1 and isinstance(s.targets[0], ast.Name) and
                    isinstance(s.value, ast.IfExp) and isinstance(s.value.orelse, ast.Constant) and s.value.orelse.value is None and
                    isinstance(s.value.body, ast.Name)):
                continue
            X, E, G = s.targets[0].id, s.value.body.id, s.value.test
            if E not in {n.id for n in ast.walk(G) if isinstance(n, ast.Name)}:
                continue
            defs = [d for d in blk[:k] if isinstance(d, ast.Assign) and len(d.targets) == 1 and norm(d.targets[0]) == E]
            uses = [n for n in ast.walk(fn) if isinstance(n, ast.Name) and n.id == E]
            in_stmt = [n for n in ast.walk(s) if isinstance(n, ast.Name) and n.id == E]
            if len(defs) != 1 or len(uses) != 1 + len(in_stmt):
                continue
            rest = blk[k + 1:]
            if any(isinstance(n, ast.Name) and n.id == X and isinstance(n.ctx, ast.Store) for r in rest for n in ast.walk(r)):
                continue
            G2 = _Subst({E: ast.Name(id=X, ctx=ast.Load())}).visit(copy.deepcopy(G))

            class T(ast.NodeTransformer):
                def visit_Compare(self, node):
                    if len(node.ops) == 1 and isinstance(node.left, ast.Name) and node.left.id == X and \
                            isinstance(node.comparators[0], ast.Constant) and node.comparators[0].value is None:
                        if isinstance(node.ops[0], ast.IsNot):
                            return _loc(copy.deepcopy(G2), node)
                        if isinstance(node.ops[0], ast.Is):
                            return _loc(ast.UnaryOp(op=ast.Not(), operand=copy.deepcopy(G2)), node)
                    return self.generic_visit(node)
            defs[0].targets[0] = _loc(ast.Name(id=X, ctx=ast.Store()), defs[0].targets[0])
            blk.remove(s)
            for j in range(len(blk)):
                if blk[j] is not defs[0]:
                    blk[j] = T().visit(blk[j])
            # tests in enclosing / following blocks
            for b2 in _blocks(fn):
                if b2 is not blk:
                    for j in range(len(b2)):
                        b2[j] = T().visit(b2[j])
    ast.fix_missing_locations(fn)
    return fn


def _none_sentinels(fn):
    """N11: `if G: ... else: X = None` with X an operand of G, and later tests `X is not None` / `X is None`: the name is a
    sentinel for the outcome of G.  The else branch is dropped and the tests are replaced by G / not G (X is otherwise only
    used where the test holds, and the operands of G are not rebound in between - checked)."""
    for blk in list(_blocks(fn)):
        for k, s in enumerate(list(blk)):
            if not (isinstance(s, ast.If) and len(s.orelse) == 1 and isinstance(s.orelse[0], ast.Assign) and
                    len(s.orelse[0].targets) == 1 and isinstance(s.orelse[0].targets[0], ast.Name) and
                    isinstance(s.orelse[0].value, ast.Constant) and s.orelse[0].value.value is None):
                continue
            X = s.orelse[0].targets[0].id
            if X not in {n.id for n in ast.walk(s.test) if isinstance(n, ast.Name)}:
                continue
            if any(isinstance(n, ast.Name) and n.id == X and isinstance(n.ctx, ast.Store) for b in s.body for n in ast.walk(b)):
                continue
            rest = blk[k + 1:]
            # X may only be read in `X is (not) None` tests or under such a test; nothing rebinds the operands of G
            ops = {n.id for n in ast.walk(s.test) if isinstance(n, ast.Name)}
            if any(isinstance(n, ast.Name) and n.id in ops and isinstance(n.ctx, ast.Store) for r in rest for n in ast.walk(r)):
                continue
            G = s.test

            class T(ast.NodeTransformer):
                def visit_Compare(self, node):
                    if len(node.ops) == 1 and isinstance(node.left, ast.Name) and node.left.id == X and \
                            isinstance(node.comparators[0], ast.Constant) and node.comparators[0].value is None:
                        if isinstance(node.ops[0], ast.IsNot):
                            return _loc(copy.deepcopy(G), node)
                        if isinstance(node.ops[0], ast.Is):
                            return _loc(ast.UnaryOp(op=ast.Not(), operand=copy.deepcopy(G)), node)
                    return self.generic_visit(node)
            tests = [n for r in rest for n in ast.walk(r) if isinstance(n, ast.Compare) and isinstance(n.left, ast.Name) and
                     n.left.id == X and isinstance(n.comparators[0], ast.Constant) and n.comparators[0].value is None]
            if not tests:
                continue
            s.orelse = []
            for j in range(k + 1, len(blk)):
                blk[j] = T().visit(blk[j])
    ast.fix_missing_locations(fn)
    return fn


def normalise(fnode, helpers=None):
    fn = copy.deepcopy(fnode)
    A = fn.args.args[0].arg if fn.args.args else None
    if helpers:
        fn = _inline_helpers(fn, {k: v for k, v in helpers.items() if k != fn.name})
    fn = _none_sentinels(fn)
    fn = _none_sentinel_exprs(fn)
    # ---- N3: shape aliases
    stores = _stores(fn)
    alias = {}
    for blk in _blocks(fn):
        for s in list(blk):
            if isinstance(s, ast.Assign) and len(s.targets) == 1:
                t, v = s.targets[0], s.value
                if isinstance(t, ast.Tuple) and len(t.elts) == 2 and all(isinstance(x, ast.Name) for x in t.elts) and \
                        isinstance(v, ast.Attribute) and v.attr == 'shape' and isinstance(v.value, ast.Name) and \
                        all(stores.get(x.id) == 1 for x in t.elts):
                    for k, x in enumerate(t.elts):
                        alias[x.id] = _parse(f'{v.value.id}.shape[{k}]')
                    blk.remove(s)
                elif isinstance(t, ast.Name) and stores.get(t.id) == 1 and isinstance(v, ast.Subscript) and \
                        isinstance(v.value, ast.Attribute) and v.value.attr == 'shape' and isinstance(v.slice, ast.Constant):
                    alias[t.id] = copy.deepcopy(v)
                    blk.remove(s)
                elif isinstance(t, ast.Name) and stores.get(t.id) == 1 and blk is fn.body and \
                        isinstance(v, (ast.Call, ast.UnaryOp, ast.Compare)) and _is_guard_expr(v) and \
                        all(stores.get(x.id, 0) <= 1 for x in ast.walk(v) if isinstance(x, ast.Name)):
                    # N4: a guard evaluated once into a local (its operands are never rebound): uses stand for the test
                    alias[t.id] = copy.deepcopy(v)
                    blk.remove(s)
    if alias:
        fn = _Subst(alias).visit(fn)
    two_d = {A} if A else set()
    for n in ast.walk(fn):
        if isinstance(n, ast.Assign) and len(n.targets) == 1 and isinstance(n.targets[0], ast.Name) and \
                isinstance(n.value, ast.Call) and norm(n.value.func) in ('np.zeros', 'np.empty') and n.value.args and \
                isinstance(n.value.args[0], ast.Tuple) and len(n.value.args[0].elts) == 2:
            two_d.add(n.targets[0].id)
    # ---- statement-level rewrites
    for blk in _blocks(fn):
        i = 0
        while i < len(blk):
            s = blk[i]
            # N2
            if isinstance(s, ast.Assign) and len(s.targets) == 1 and isinstance(s.targets[0], ast.Tuple) and \
                    isinstance(s.value, ast.Tuple) and len(s.targets[0].elts) == len(s.value.elts) and \
                    all(isinstance(t, ast.Name) for t in s.targets[0].elts):
                names = [t.id for t in s.targets[0].elts]
                indep = True
                for k, v in enumerate(s.value.elts):
                    used = {x.id for x in ast.walk(v) if isinstance(x, ast.Name)}
                    if used & set(names[:k]):
                        indep = False
                if indep:
                    new = [_loc(ast.Assign(targets=[t], value=v), s) for t, v in zip(s.targets[0].elts, s.value.elts)]
                    blk[i:i + 1] = new
                    continue
            # N1
            if isinstance(s, ast.Assign) and len(s.targets) == 1 and isinstance(s.targets[0], ast.Name) and \
                    isinstance(s.value, ast.BinOp) and isinstance(s.value.op, ast.Add):
                nm = s.targets[0].id
                l, r = s.value.left, s.value.right
                other = r if isinstance(l, ast.Name) and l.id == nm else (l if isinstance(r, ast.Name) and r.id == nm else None)
                if other is not None and not any(isinstance(x, ast.Name) and x.id == nm for x in ast.walk(other)):
                    blk[i] = _loc(ast.AugAssign(target=ast.Name(id=nm, ctx=ast.Store()), op=ast.Add(), value=other), s)
                    continue
            # N6 / N10
            if isinstance(s, ast.Assign) and len(s.targets) == 1 and isinstance(s.targets[0], ast.Name) and \
                    s.targets[0].id in two_d:
                nm = s.targets[0].id
                v = s.value
                if isinstance(v, ast.Subscript) and isinstance(v.value, ast.Name) and v.value.id == nm and \
                        not isinstance(v.slice, ast.Tuple):
                    full = ast.Slice(lower=None, upper=None, step=None)
                    v.slice = _loc(ast.Tuple(elts=[v.slice, full], ctx=ast.Load()), v)
                    ast.fix_missing_locations(s)
                elif isinstance(v, ast.Call) and norm(v.func) == 'np.take' and len(v.args) >= 2 and \
                        isinstance(v.args[0], ast.Name) and v.args[0].id == nm and not any(k.arg == 'out' for k in v.keywords):
                    ax = [k.value for k in v.keywords if k.arg == 'axis'] or (list(v.args[2:3]))
                    if ax and isinstance(ax[0], ast.Constant) and ax[0].value in (0, 1):
                        full = ast.Slice(lower=None, upper=None, step=None)
                        elts = [v.args[1], full] if ax[0].value == 0 else [full, v.args[1]]
                        s.value = _loc(ast.Subscript(value=ast.Name(id=nm, ctx=ast.Load()),
                                                     slice=ast.Tuple(elts=elts, ctx=ast.Load()), ctx=ast.Load()), v)
            i += 1
    # ---- N5: counter-next idiom inside loops
    for loop in [n for n in ast.walk(fn) if isinstance(n, ast.For)]:
        body = loop.body
        for k, s in enumerate(body):
            if isinstance(s, ast.Assign) and len(s.targets) == 1 and isinstance(s.targets[0], ast.Name) and \
                    isinstance(s.value, ast.BinOp) and isinstance(s.value.op, ast.Add) and isinstance(s.value.left, ast.Name):
                N, D = s.targets[0].id, s.value.left.id
                if N == D:
                    continue
                back = [j for j in range(k + 1, len(body)) if isinstance(body[j], ast.Assign) and
                        len(body[j].targets) == 1 and norm(body[j].targets[0]) == D and norm(body[j].value) == N]
                if len(back) != 1:
                    continue
                P = f'{D}prev'
                e = s.value.right
                head = [_loc(ast.Assign(targets=[ast.Name(id=P, ctx=ast.Store())], value=ast.Name(id=D, ctx=ast.Load())), s),
                        _loc(ast.AugAssign(target=ast.Name(id=D, ctx=ast.Store()), op=ast.Add(), value=e), s)]
                mid = body[k + 1:back[0]]
                tail = body[back[0] + 1:]

                class R(ast.NodeTransformer):
                    def visit_Name(self, node):
                        if isinstance(node.ctx, ast.Load) and node.id == D:
                            return _loc(ast.Name(id=P, ctx=ast.Load()), node)
                        if isinstance(node.ctx, ast.Load) and node.id == N:
                            return _loc(ast.Name(id=D, ctx=ast.Load()), node)
                        return node

                class R2(ast.NodeTransformer):
                    def visit_Name(self, node):
                        if isinstance(node.ctx, ast.Load) and node.id == N:
                            return _loc(ast.Name(id=D, ctx=ast.Load()), node)
                        return node
                mid = [R().visit(x) for x in mid]
                tail = [R2().visit(x) for x in tail]
                loop.body = body[:k] + head + mid + tail
                break
    # ---- expression-level rewrites (N7, N8)
    fn = _Expr().visit(fn)
    ast.fix_missing_locations(fn)
    return fn


def _is_guard_expr(v):
    t = norm(v)
    return t.startswith(('np.any(', 'not np.array_equal(', 'not np.all(', 'np.array_equal(', 'np.all(', 'bool(np.any(',
                         'bool(not np.array_equal(')) or \
        (isinstance(v, ast.Compare) and ('len(' in t or '.size' in t))


def _blocks(node):
    for n in ast.walk(node):
        for f in ('body', 'orelse', 'finalbody'):
            b = getattr(n, f, None)
            if isinstance(b, list) and b and isinstance(b[0], ast.stmt):
                yield b


def _is_arange_len(e, p):
    return norm(e) == f'np.arange(len({p}))' or norm(e) == f'np.arange({p}.size)' or norm(e) == f'np.arange({p}.shape[0])'


class _Expr(ast.NodeTransformer):
    def visit_If(self, node):
        self.generic_visit(node)
        node.test = self.guard(node.test)
        return node

    def guard(self, t):
        neg = False
        inner = t
        if isinstance(inner, ast.Call) and norm(inner.func) == 'bool' and len(inner.args) == 1:
            inner = t = inner.args[0]
        if isinstance(t, ast.UnaryOp) and isinstance(t.op, ast.Not):
            neg, inner = True, t.operand
        # --- "empty" guards
        q = None
        if not neg and isinstance(inner, ast.Compare) and len(inner.ops) == 1:
            l, r, op = inner.left, inner.comparators[0], type(inner.ops[0])
            flip = {ast.Lt: ast.Gt, ast.Gt: ast.Lt, ast.LtE: ast.GtE, ast.GtE: ast.LtE}
            for a, b, o in ((l, r, op), (r, l, flip.get(op, op))):
                size = None
                if isinstance(a, ast.Call) and norm(a.func) == 'len' and len(a.args) == 1:
                    size = norm(a.args[0])
                elif isinstance(a, ast.Attribute) and a.attr == 'size':
                    size = norm(a.value)
                if size is not None and isinstance(b, ast.Constant):
                    if (o is ast.Eq and b.value == 0) or (o is ast.Lt and b.value == 1) or (o is ast.LtE and b.value == 0):
                        q = size
        if neg:
            if isinstance(inner, ast.Call) and norm(inner.func) == 'len' and len(inner.args) == 1:
                q = norm(inner.args[0])
            elif isinstance(inner, ast.Attribute) and inner.attr == 'size':
                q = norm(inner.value)
        if q is not None and q.isidentifier():
            return _loc(_parse(f'len({q}) == 0'), t)
        # --- "not the identity permutation" guards
        p = None
        if not neg and isinstance(inner, ast.Call) and norm(inner.func) == 'np.any' and len(inner.args) == 1:
            a = inner.args[0]
            if isinstance(a, ast.Compare) and len(a.ops) == 1 and isinstance(a.ops[0], ast.NotEq):
                for x, y in ((a.left, a.comparators[0]), (a.comparators[0], a.left)):
                    if isinstance(x, ast.Name) and _is_arange_len(y, x.id):
                        p = x.id
        if not neg and isinstance(inner, ast.Call) and isinstance(inner.func, ast.Attribute) and inner.func.attr == 'any' and \
                not inner.args:
            a = inner.func.value
            if isinstance(a, ast.Compare) and len(a.ops) == 1 and isinstance(a.ops[0], ast.NotEq):
                for x, y in ((a.left, a.comparators[0]), (a.comparators[0], a.left)):
                    if isinstance(x, ast.Name) and _is_arange_len(y, x.id):
                        p = x.id
        if neg and isinstance(inner, ast.Call) and norm(inner.func) == 'np.array_equal' and len(inner.args) == 2:
            for x, y in ((inner.args[0], inner.args[1]), (inner.args[1], inner.args[0])):
                if isinstance(x, ast.Name) and _is_arange_len(y, x.id):
                    p = x.id
        if neg and isinstance(inner, ast.Call) and norm(inner.func) == 'np.all' and len(inner.args) == 1:
            a = inner.args[0]
            if isinstance(a, ast.Compare) and len(a.ops) == 1 and isinstance(a.ops[0], ast.Eq):
                for x, y in ((a.left, a.comparators[0]), (a.comparators[0], a.left)):
                    if isinstance(x, ast.Name) and _is_arange_len(y, x.id):
                        p = x.id
        if p is not None:
            return _loc(_parse(f'np.any({p} - np.arange(len({p})))'), t)
        return t

    def visit_Call(self, node):
        self.generic_visit(node)
        if norm(node.func) == 'np.flatnonzero' and len(node.args) == 1:
            return _loc(ast.Subscript(value=ast.Call(func=_parse('np.where'), args=node.args, keywords=[]),
                                      slice=ast.Constant(0), ctx=ast.Load()), node)
        if norm(node.func) == 'np.nonzero' and len(node.args) == 1:
            node.func = _loc(_parse('np.where'), node.func)
        return node
