"""C01 - orthonormalisation preserves the represented object (structural part)."""
import ast

from ..loader import norm, AnalysisError
from ..factor import Tail, TT, ONE, sign_nonneg
from . import legrules as lr
from . import sweeprules as sr
from .common import where

QR_STEPS = ['mps.local_orthonormalize_left_qr', 'mps.local_orthonormalize_right_qr',
            'mpo.local_orthonormalize_left_qr', 'mpo.local_orthonormalize_right_qr']
SWEEPS = [('mps.MPS.orthonormalize', 3), ('mpo.MPO.orthonormalize', 4)]


def mode_branches(fi, param='mode'):
    """statements of the branch for each value of `mode`.  Two layouts: `if mode == 'left': ... if mode == 'right': ...
    raise`, or a guard clause `if mode not in ('left', 'right'): raise` followed by `if mode == X: ... return` and the
    other branch un-indented"""
    out = {}
    body = fi.node.body
    for s in body:
        if isinstance(s, ast.If) and isinstance(s.test, ast.Compare) and norm(s.test.left) == param and \
                len(s.test.ops) == 1 and isinstance(s.test.ops[0], ast.Eq) and \
                isinstance(s.test.comparators[0], ast.Constant):
            out[s.test.comparators[0].value] = s.body
    guard = [s for s in body if isinstance(s, ast.If) and isinstance(s.test, ast.Compare) and norm(s.test.left) == param and
             len(s.test.ops) == 1 and isinstance(s.test.ops[0], ast.NotIn) and s.body and isinstance(s.body[-1], ast.Raise)
             and not s.orelse]
    if len(out) == 1 and len(guard) == 1 and isinstance(guard[0].test.comparators[0], (ast.Tuple, ast.List, ast.Set)):
        allowed = [e.value for e in guard[0].test.comparators[0].elts if isinstance(e, ast.Constant)]
        (have, stmts), = out.items()
        others = [m for m in allowed if m != have]
        first = next(s for s in body if isinstance(s, ast.If) and s.body is stmts)
        if len(allowed) == 2 and len(others) == 1 and stmts and isinstance(stmts[-1], ast.Return) and \
                body.index(guard[0]) < body.index(first) and not first.orelse:
            rest = body[body.index(first) + 1:]
            if rest:
                out[others[0]] = rest
    return out


def pass_through_rule(chk, repo, rid, fi, br):
    """must-pass-through: every return of the routine lies in one of the mode branches after its boundary call, or is the
    documented empty-chain guard; nothing else at the top level writes the object"""
    branch_stmts = {id(s) for stmts in br.values() for s in stmts}
    branch_ifs = [s for s in fi.node.body if isinstance(s, ast.If) and any(id(x) in branch_stmts for x in s.body)]
    n = 0
    for s in fi.node.body:
        if s in branch_ifs or isinstance(s, (ast.Assert, ast.Raise)) or id(s) in branch_stmts or \
                (isinstance(s, ast.Expr) and isinstance(s.value, ast.Constant)):
            continue
        if isinstance(s, ast.If) and s.body and isinstance(s.body[-1], ast.Raise) and not s.orelse and \
                not any(isinstance(x, (ast.Return, ast.Assign, ast.AugAssign)) for x in ast.walk(s)):
            continue            # a guard clause that only raises
        guard = isinstance(s, ast.If) and norm(s.test) in ('len(self.A) == 0', 'self.nsites == 0', 'not self.A') and \
            len(s.body) == 1 and isinstance(s.body[0], ast.Return) and not s.orelse
        if guard:
            continue
        rets = [r for r in ast.walk(s) if isinstance(r, ast.Return)]
        writes = [t for a in ast.walk(s) if isinstance(a, (ast.Assign, ast.AugAssign))
                  for t in (a.targets if isinstance(a, ast.Assign) else [a.target])
                  if any(isinstance(x, ast.Name) and x.id == 'self' for x in ast.walk(t))]
        if rets or writes:
            chk.ob(rid, where(repo, fi, s), f'{fi.name}: every returning path runs through the sweep and its boundary factorisation '
                   f'(apart from the empty-chain guard)', False, f'`{norm(s)[:80]}` returns or writes the object outside the mode '
                   f'branches: the isometry / factor argument of the sweep does not cover this path',
                   key=f'{rid}|{fi.qual}|bypass|{norm(s)[:60]}')
            n += 1
    for mode, stmts in br.items():
        k, b = boundary_stmt(stmts)
        early = [r for s in stmts[:k if k is not None else 0] for r in ast.walk(s) if isinstance(r, ast.Return)]
        chk.ob(rid, where(repo, fi, stmts[0]), f'{fi.name}(mode={mode!r}): no return before the boundary factorisation', not early,
               f'return at line {early[0].lineno}' if early else '', key=f'{rid}|{fi.qual}|{mode}|no-early-return')
        n += 1
    return n


def boundary_stmt(stmts):
    for k, s in enumerate(stmts):
        if isinstance(s, ast.Assign) and isinstance(s.value, ast.Call) and \
                norm(s.value.func).startswith('local_orthonormalize') and len(s.value.args) > 1 and \
                norm(s.value.args[1]).startswith('np.array([[[') and isinstance(s.targets[0], ast.Tuple) and \
                len(s.targets[0].elts) == 3:
            return k, s
    return None, None


def factor_rule(chk, repo, rid, fi, mode, stmts, rank, ret_index=None, what='returned factor', const_scale=False):
    """R3: sign domain and factor x scale algebra over the tail after the boundary call"""
    k, b = boundary_stmt(stmts)
    if b is None:
        raise AnalysisError(f'{fi.qual} ({mode}): boundary call with the dummy neighbour not found')
    t = b.targets[0].elts
    if not isinstance(t[1], ast.Name):
        raise AnalysisError(f'{fi.qual} ({mode}): trailing factor is not bound to a name')
    tail = Tail(t[1].id, norm(t[0]), rank, real=const_scale)
    tail.walk(stmts[k + 1:], {}, ONE, [])
    if not tail.paths:
        raise AnalysisError(f'{fi.qual} ({mode}): no path reaches a return after the boundary call')
    n = 0
    for scale, rexpr, env, facts, node in tail.paths:
        w = where(repo, fi, node if node is not None else b)
        ftxt = ', '.join(f'{m} {rel}' for m, rel in facts) or 'no condition'
        if rexpr is None:
            chk.ob(rid, w, f'{fi.name}(mode={mode!r}) [{ftxt}]: the path returns the factor', False,
                   'path falls through without returning', key=f'{rid}|{fi.qual}|{mode}|{ftxt}|returns')
            n += 1
            continue
        e = rexpr
        if ret_index is not None:
            if not (isinstance(rexpr, ast.Tuple) and len(rexpr.elts) > ret_index):
                chk.ob(rid, w, f'{fi.name}(mode={mode!r}): returns a pair', False, norm(rexpr),
                       key=f'{rid}|{fi.qual}|{mode}|{ftxt}|pair')
                n += 1
                continue
            e = rexpr.elts[ret_index]
        r = tail.ev(e, env)
        chk.ob(rid, w, f'{fi.name}(mode={mode!r}) [{ftxt}]: {what} `{norm(e)}` is a monomial in the trailing factor T',
               r is not None, f'value {r}', key=f'{rid}|{fi.qual}|{mode}|{ftxt}|form')
        n += 1
        if r is None:
            continue
        chk.ob(rid, w, f'{fi.name}(mode={mode!r}) [{ftxt}]: {what} is non-negative on this path', sign_nonneg(r, facts),
               f'{what} = {r} under [{ftxt}]', key=f'{rid}|{fi.qual}|{mode}|{ftxt}|sign')
        prod = r * scale
        if const_scale:
            from ..factor import real_form
            prod, scale = real_form(prod), real_form(scale)
        from ..factor import under_facts
        chk.ob(rid, w, f'{fi.name}(mode={mode!r}) [{ftxt}]: ({what}) x (scale applied to the boundary tensor) == T',
               prod == TT or under_facts(prod, facts) == TT, f'{what} = {r}, scale = {scale}, product = {prod}',
               key=f'{rid}|{fi.qual}|{mode}|{ftxt}|product')
        n += 2
        if const_scale:
            # a zero object is a valid input of orthonormalize: the boundary tensor (an isometry after the QR step) may only
            # be multiplied by a constant sign; T/|T| or sign(T) is 0 or undefined at T = 0 and destroys the isometry
            chk.ob(rid, w, f'{fi.name}(mode={mode!r}) [{ftxt}]: the scale applied to the boundary tensor is a constant sign '
                   f'(defined and of modulus one also for a vanishing trailing factor)', scale.a == 0 and scale.b == 0,
                   f'scale = {scale}', key=f'{rid}|{fi.qual}|{mode}|{ftxt}|const-scale')
            n += 1
    return n


def run(chk, repo, tier):
    chk.rule('C01.R1', 'gauge invariance of each local QR step: the two returned tensors contracted over the new bond, '
                       'with Q-R rewritten by the contract Q@R == M, denote the two input tensors contracted over the '
                       'old bond (leg domain); quantum numbers handed to the block QR are those of the merged legs; the '
                       'returned label has the orientation of the new leg')
    chk.rule('C01.R2', 'sweep wiring of orthonormalize (MPS/MPO x left/right): neighbour, label slice and the three '
                       'targets of every local step belong to the same bond; every bond is re-factorised exactly once, in '
                       'order, the boundary bond last with a rank-matching dummy (affine in i and L; L = 1 separately)')
    chk.rule('C01.R3', 'returned factor: on every path after the boundary call the returned value is >= 0 in the sign '
                       'domain and (returned value) x (scale applied to the boundary tensor) equals the trailing 1x1 '
                       'factor T (monomials over T, |T|, -1); the empty chain returns a non-negative constant')
    n1 = 0
    for q in QR_STEPS:
        n1 += lr.check_local_step(chk, 'C01.R1', repo, q)
    chk.floor('C01.R1', n1, 20)
    n2 = n3 = 0
    for q, rank in SWEEPS:
        fi = repo.func(q)
        br = mode_branches(fi)
        if set(br) != {'left', 'right'}:
            raise AnalysisError(f'{q}: branches for mode "left" and "right" not found')
        n2 += pass_through_rule(chk, repo, 'C01.R2', fi, br)
        for mode, stmts in br.items():
            cases = sr.bond_coverage(chk, repo, 'C01.R2', fi, stmts, mode)
            for label, m, rep, pre in cases:
                seen = {}
                for kind, node, ok, text in rep.items:
                    if kind not in ('slot', 'pairing'):
                        continue
                    base = f'C01.R2|{q}|{mode}|{label}|{kind}|{norm(node)[:60]}|{text[:160]}'
                    seen[base] = seen.get(base, 0) + 1
                    chk.ob('C01.R2', where(repo, fi, node), f'{fi.name}(mode={mode!r}) [{label}]: {text[:150]}', ok, text,
                           key=base + (f'|#{seen[base]}' if seen[base] > 1 else ''))
                    n2 += 1
            # the dummy neighbour has the rank of a site tensor
            k, b = boundary_stmt(stmts)
            d = norm(b.value.args[1])
            want = 'np.array(' + '[' * rank + '1' + ']' * rank + ')'
            chk.ob('C01.R2', where(repo, fi, b), f'{fi.name}(mode={mode!r}): dummy neighbour is a 1-element tensor of rank {rank}',
                   d == want, d, key=f'C01.R2|{q}|{mode}|dummy-rank')
            n2 += 1
            n3 += factor_rule(chk, repo, 'C01.R3', fi, mode, stmts, rank, const_scale=True)
        # empty chain
        g = fi.node.body[0] if not isinstance(fi.node.body[0], ast.Expr) else fi.node.body[1]
        ok = isinstance(g, ast.If) and norm(g.test) in ('len(self.A) == 0', 'self.nsites == 0', 'not self.A', 'len(self.A) < 1',
                                                        'self.nsites < 1') and len(g.body) == 1 and \
            isinstance(g.body[0], ast.Return) and isinstance(g.body[0].value, ast.Constant) and \
            isinstance(g.body[0].value.value, (int, float)) and g.body[0].value.value >= 0
        chk.ob('C01.R3', where(repo, fi, g), f'{fi.name}: the empty chain returns a non-negative constant', ok,
               norm(g)[:60], key=f'C01.R3|{q}|empty')
        n3 += 1
        # any other mode raises
        last = fi.node.body[-1]
        guard_first = any(isinstance(s_, ast.If) and isinstance(s_.test, ast.Compare) and isinstance(s_.test.ops[0], ast.NotIn)
                          and s_.body and isinstance(s_.body[-1], ast.Raise) for s_ in fi.node.body)
        chk.ob('C01.R2', where(repo, fi, last), f'{fi.name}: an unknown mode raises instead of returning silently',
               isinstance(last, ast.Raise) or guard_first, norm(last)[:60], key=f'C01.R2|{q}|else-raises')
    from . import support
    support.block_rules(chk, repo, 'C01.R4', ('qr',))
    chk.floor('C01.R2', n2, 60)
    chk.floor('C01.R3', n3, 20)
    chk.assume('factorisation contract Q@R == M of bond_ops.qr (C11 decides its structural part)')
    chk.assume('the trailing factor T is real for the QR sweeps (documented: the diagonal of R is real)')
    from . import qnrules
    qnrules.qnumber_rules(chk, repo, 'C01.R5')
    chk.undecided += ['isometry of the site tensors, unit norm, bond-dimension bound numerically',
                      'rank-deficient inputs and integer / real dtype behaviour']
    return ('Leg-domain proof obligation for the four local QR steps (gauge invariance under the QR contract, charge '
            'orientation), affine slot typing and bond coverage of the four orthonormalisation sweeps, sign domain and '
            'factor x scale monomial algebra for the returned normalisation factor on every path.',
            'instances = local steps x {ranks, gauge, charges, label}, call sites of the sweeps x slots, paths after the '
            'boundary call x {form, sign, product}')
