"""C10 - DMRG (structural part)."""
import ast
from ..defuse import before as _before

from ..loader import norm, AnalysisError
from ..effects import Engine
from ..match import pmatch
from . import sweeprules as sr
from .common import where

ROUTINES = ['minimization.calculate_ground_state_local_singlesite', 'minimization.calculate_ground_state_local_twosite']


def inline_problem_rule(chk, repo, rid):
    """local eigenproblems posed in line (not through _minimize_local_energy): same obligations per call site"""
    n = 0
    for q in ROUTINES:
        fi = repo.func(q)
        for c in [c for c in ast.walk(fi.node) if isinstance(c, ast.Call) and norm(c.func) == 'eigh_krylov']:
            lam = c.args[0] if c.args else None
            ok_lam, ten = False, None
            if isinstance(lam, ast.Lambda) and len(lam.args.args) == 1 and len(c.args) >= 2:
                x = lam.args.args[0].arg
                b = pmatch(f'apply_local_hamiltonian(__L, __R, __W, {x}.reshape(__A.shape)).reshape(-1)', lam.body)
                if b is not None:
                    ok_lam, ten = True, b['__A']
            chk.ob(rid, where(repo, fi, c), f'{fi.name}: in-line local eigenproblem: the operator is the effective Hamiltonian '
                   f'acting on vectors of the shape of the current tensor', ok_lam, norm(lam)[:110] if lam is not None else '',
                   key=f'{rid}|{q}|inline-operator|{norm(c)[:50]}')
            ok_start = ok_lam and norm(c.args[1]) == f'{ten}.reshape(-1)'
            chk.ob(rid, where(repo, fi, c), f'{fi.name}: in-line local eigenproblem is started from the current tensor', ok_start,
                   norm(c.args[1]) if len(c.args) >= 2 else '', key=f'{rid}|{q}|inline-start|{norm(c)[:50]}')
            ok_n = len(c.args) >= 4 and norm(c.args[3]) == '1'
            chk.ob(rid, where(repo, fi, c), f'{fi.name}: one eigenpair (the lowest) is requested', ok_n, '',
                   key=f'{rid}|{q}|inline-numeig|{norm(c)[:50]}')
            n += 3
    return n


def start_vector_rule(chk, repo, rid):
    fi = repo.func('minimization._minimize_local_energy')
    calls = [c for c in ast.walk(fi.node) if isinstance(c, ast.Call) and norm(c.func) == 'eigh_krylov']
    if len(calls) != 1:
        raise AnalysisError('_minimize_local_energy: eigh_krylov call not found')
    c = calls[0]
    Lp, Rp, Wp, Ap = fi.params[:4]
    lam = c.args[0]
    ok_lam = isinstance(lam, ast.Lambda) and len(lam.args.args) == 1
    if ok_lam:
        x = lam.args.args[0].arg
        b = pmatch(f'apply_local_hamiltonian({Lp}, {Rp}, {Wp}, {x}.reshape({Ap}.shape)).reshape(-1)', lam.body)
        ok_lam = b is not None
    chk.ob(rid, where(repo, fi, c), 'local eigenproblem: the operator is the effective Hamiltonian of the given '
           'environments and MPO tensor, acting on vectors of the shape of the current tensor', ok_lam,
           norm(lam)[:110], key=f'{rid}|operator')
    ok_start = len(c.args) >= 2 and norm(c.args[1]) == f'{Ap}.reshape(-1)'
    chk.ob(rid, where(repo, fi, c), 'local eigenproblem is started from the current tensor (Ritz value <= its Rayleigh '
           'quotient)', ok_start, norm(c.args[1]) if len(c.args) >= 2 else '', key=f'{rid}|start')
    ok_n = len(c.args) >= 4 and norm(c.args[3]) == '1'
    chk.ob(rid, where(repo, fi, c), 'one eigenpair (the lowest) is requested', ok_n,
           norm(c.args[3]) if len(c.args) >= 4 else '', key=f'{rid}|numeig')
    rets = [r for r in ast.walk(fi.node) if isinstance(r, ast.Return)]
    tgt = None
    for s in fi.node.body:
        if isinstance(s, ast.Assign) and s.value is c and isinstance(s.targets[0], ast.Tuple):
            tgt = [norm(t) for t in s.targets[0].elts]
    ok_ret = False
    if tgt and len(rets) == 1 and isinstance(rets[0].value, ast.Tuple) and len(rets[0].value.elts) == 2:
        from ..defuse import local_defs, expand
        defs = local_defs(fi.node)
        e0 = norm(expand(rets[0].value.elts[0], defs))
        e1 = norm(expand(rets[0].value.elts[1], defs))
        ok_ret = e0 == f'{tgt[0]}[0]' and e1 == f'{tgt[1]}[:, 0].reshape({Ap}.shape)'
    chk.ob(rid, where(repo, fi, rets[0] if rets else fi.node), 'returns the lowest Ritz value and its Ritz vector in the shape '
           'of the tensor', ok_ret, norm(rets[0].value) if rets else '', key=f'{rid}|result')
    return 4


def energy_rule(chk, repo, rid, q):
    fi = repo.func(q)
    outer = [s for s in fi.node.body if isinstance(s, ast.For) and 'numsweeps' in norm(s.iter)]
    if len(outer) != 1:
        raise AnalysisError(f'{q}: loop over sweeps not found')
    o = outer[0]
    var = norm(o.target)
    stores = [s for s in o.body if isinstance(s, ast.Assign) and pmatch(f'__E[{var}]', s.targets[0]) is not None]
    if len(stores) != 1:
        chk.ob(rid, where(repo, fi, o), f'{fi.name}: one energy is recorded per sweep', False, f'{len(stores)} stores',
               key=f'{rid}|{q}|energy-store')
        return 1
    st = stores[0]
    en = norm(st.value)
    arr = pmatch(f'__E[{var}]', st.targets[0])['__E']
    # last definition of `en` before the store, in program order of the sweep body
    last = None
    for s in o.body:
        if s is st:
            break
        for n in ast.walk(s):
            if isinstance(n, ast.Assign):
                tg = []
                for t in n.targets:
                    tg += list(t.elts) if isinstance(t, ast.Tuple) else [t]
                if any(norm(t) == en for t in tg):
                    last = n
    ok = last is not None and isinstance(last.value, ast.Call) and norm(last.value.func) == '_minimize_local_energy' \
        and norm(last.targets[0].elts[0]) == en if (last is not None and isinstance(last.targets[0], ast.Tuple)) else False
    if not ok and last is not None and isinstance(last.value, ast.Subscript) and norm(last.value.slice) == '0' and \
            isinstance(last.value.value, ast.Name):
        # en = w[0] with (w, u) = eigh_krylov(...) posed in line: the lowest Ritz value of that local problem
        wname = last.value.value.id
        src = [n for s_ in o.body for n in ast.walk(s_) if isinstance(n, ast.Assign) and isinstance(n.value, ast.Call) and
               norm(n.value.func) == 'eigh_krylov' and isinstance(n.targets[0], ast.Tuple) and
               norm(n.targets[0].elts[0]) == wname and _before(fi.node, n, last, strict=False)]
        if src:
            ok = True
            last = src[-1]
    chk.ob(rid, where(repo, fi, st), f'{fi.name}: the energy recorded for a sweep is the Ritz value of the last local '
           f'problem of that sweep', ok, f'last definition: {norm(last)[:80] if last is not None else None}',
           key=f'{rid}|{q}|energy-last')
    # the last local problem sits in the last sweep loop of the body, and only normalisation follows
    loops = [s for s in o.body if isinstance(s, ast.For)]
    in_last = bool(loops) and last is not None and any(n is last for n in ast.walk(loops[-1]))
    chk.ob(rid, where(repo, fi, st), f'{fi.name}: that local problem belongs to the final (right-to-left) half sweep', in_last,
           '', key=f'{rid}|{q}|energy-loop')
    rets = [r for r in ast.walk(fi.node) if isinstance(r, ast.Return)]
    ok_ret = len(rets) == 1 and norm(rets[0].value) == arr
    alloc = [s for s in fi.node.body if isinstance(s, ast.Assign) and norm(s.targets[0]) == arr]
    ok_alloc = len(alloc) == 1 and norm(alloc[0].value) == 'np.zeros(numsweeps)'
    chk.ob(rid, where(repo, fi, rets[0] if rets else fi.node), f'{fi.name}: returns the array of per-sweep energies '
           f'(one entry per sweep)', ok_ret and ok_alloc, '', key=f'{rid}|{q}|energy-return')
    return 3


def coverage_rule(chk, repo, rid, q):
    """every sweep poses a local problem at every position of the chain (two-site: on every pair of neighbours)"""
    from .. import sweep as sw
    from ..sweep import L, ONE, ZERO
    from ..affine import Affine
    fi = repo.func(q)
    two = q.endswith('twosite')
    for label, m, rep in sr.analyse(repo, q):
        if getattr(m, 'partial', False):
            continue
        blocks = sw.step_blocks(m.schedule)
        if blocks is None:
            raise AnalysisError(f'{q}: loop over the sweeps not found')
        segs = sw.segments(blocks)
        kind = 'H2' if two else 'H1'
        hi = (m.Lv - Affine.const(2)) if two else (m.Lv - ONE)
        ok, detail = sw.check_cover(segs, kind, ZERO, hi, m.base_facts)
        chk.ob(rid, where(repo, fi, fi.node), f'{fi.name} [{label}]: every sweep optimises every '
               f'{"pair of neighbouring sites (i, i+1), i in" if two else "site of"} [0, {hi}] at least once', ok, detail,
               key=f'{rid}|{q}|{label}|cover')


def run(chk, repo, tier):
    eng = Engine(repo)
    chk.rule('C10.R1', 'the Hamiltonian is never written: may-write set of both DMRG routines is contained in `psi`')
    chk.rule('C10.R2', 'local eigenproblem: effective Hamiltonian of the passed environments / MPO tensor, started from '
                       'the current tensor; lowest Ritz pair returned')
    chk.rule('C10.R3', 'wiring: slot typing of every call, environments never stale, local problems posed at the '
                       'orthogonality centre of a mixed-canonical state; loop invariants derived, checked inductive and '
                       're-established by every sweep; the sweep ends with a right-QR of the leftmost tensor whose R '
                       'factor is discarded (normalisation of the state)')
    chk.rule('C10.R6', 'coverage: in every sweep the local problems visit every site (two-site: every pair of neighbours) '
                       'of the chain at least once, for every L of the domain (union of the loop ranges, affine in L)')
    chk.rule('C10.R4', 'the energy recorded per sweep is the Ritz value of the last local problem of that sweep')
    n3 = 0
    for q in ROUTINES:
        fi = repo.func(q)
        res = eng.analyse(fi)
        bad = [(l.describe(), sorted(s)[0]) for l, s in res['writes'].items()
               if l.is_param() and l.root[1] != 'psi' and l.kind not in ('imm', 'callable', 'rng')]
        chk.ob('C10.R1', where(repo, fi, fi.node), f'{fi.name} may write only psi', not bad,
               '; '.join(f'{d} at {s}' for d, s in bad[:3]), key=f'C10.R1|{q}')
        if not any(l.is_param() and l.root[1] == 'psi' for l in res['writes']):
            raise AnalysisError(f'effects engine lost track of the writes to psi in {q}')
        n3 += sr.emit(chk, repo, q, {'slot': 'C10.R3', 'stale': 'C10.R3', 'canonical': 'C10.R3',
                                     'loop-entry': 'C10.R3', 'loop-invariant': 'C10.R3', 'outer-fixpoint': 'C10.R3'})
        # final normalisation
        for label, m, rep in sr.analyse(repo, q):
            blocks = None
            for b in m.schedule:
                if b[0] == 'step':
                    blocks = b[1]
            last = blocks[-1] if blocks else None
            ok = last is not None and last[0] == 'event' and last[1].kind == 'refactor' and last[1].dummy and \
                not last[1].left and last[1].lo.is_const() and last[1].lo.c == 0
            node = last[1].node if ok else fi.node
            disc = False
            if ok:
                tg = node.targets[0].elts if isinstance(node.targets[0], ast.Tuple) else []
                disc = len(tg) == 3 and isinstance(tg[1], ast.Name) and tg[1].id == '_'
            chk.ob('C10.R3', where(repo, fi, node), f'{fi.name} [{label}]: every sweep ends with the right-QR normalisation of '
                   f'the leftmost tensor, its 1x1 factor discarded', ok and disc, '', key=f'C10.R3|{q}|{label}|final-norm')
            n3 += 1
        energy_rule(chk, repo, 'C10.R4', q)
        coverage_rule(chk, repo, 'C10.R6', q)
    start_vector_rule(chk, repo, 'C10.R2')
    inline_problem_rule(chk, repo, 'C10.R2')
    from . import support
    support.kernel_rules(chk, repo, 'C10.R5', ['apply_local_hamiltonian', 'contraction_operator_step_left',
                                               'contraction_operator_step_right'])
    support.krylov_rules(chk, repo, 'C10.K')
    chk.floor('C10.R3', n3, 120, hard_min=50)
    for a in sorted(eng.assumed):
        chk.assume(a)
    chk.undecided += ['variational inequalities', 'monotonicity of the reported energies', 'convergence to the ground state']
    return ('Affine interval machine over both DMRG routines (slot typing, validity of environments, mixed-canonical form, '
            'loop invariants for all L >= 2), effects analysis (only psi written), start-vector and energy-provenance rules.',
            'instances = call sites x obligations per lattice case, energy/def-use facts')
