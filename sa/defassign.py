"""Definite assignment: every read of a local happens after a binding on *every* path, where a `for` loop may run
zero times unless its iterable is provably non-empty (facts: literal tuples/lists, range(c) with c > 0, and lower bounds
on names established by dominating asserts `assert n >= c` / `assert n > c`).

Returns a list of (node, name, reason).  Scope rules follow Python: parameters are bound; names assigned anywhere in the
function are local (unless declared global/nonlocal); comprehension targets live in their own scope; reads of names that
are never assigned in the function are free (module-level / builtins) and ignored.
"""
import ast

from .affine import try_affine


def _targets(t, out):
    if isinstance(t, ast.Name):
        out.add(t.id)
    elif isinstance(t, (ast.Tuple, ast.List)):
        for e in t.elts:
            _targets(e, out)
    elif isinstance(t, ast.Starred):
        _targets(t.value, out)


def local_names(fn):
    names = {a.arg for a in fn.args.args + fn.args.kwonlyargs + fn.args.posonlyargs}
    if fn.args.vararg:
        names.add(fn.args.vararg.arg)
    if fn.args.kwarg:
        names.add(fn.args.kwarg.arg)
    params = set(names)
    glob = set()

    def visit(n):
        for c in ast.iter_child_nodes(n):
            if isinstance(c, (ast.FunctionDef, ast.AsyncFunctionDef, ast.ClassDef)):
                names.add(c.name)
                continue
            if isinstance(c, ast.Lambda):
                continue
            if isinstance(c, (ast.ListComp, ast.SetComp, ast.DictComp, ast.GeneratorExp)):
                # targets are comprehension-local; walrus inside would leak (not used in this code base)
                continue
            if isinstance(c, (ast.Global, ast.Nonlocal)):
                glob.update(c.names)
            if isinstance(c, ast.Assign):
                for t in c.targets:
                    _targets(t, names)
            elif isinstance(c, (ast.AugAssign, ast.AnnAssign)):
                _targets(c.target, names)
            elif isinstance(c, (ast.For, ast.AsyncFor)):
                _targets(c.target, names)
            elif isinstance(c, (ast.With, ast.AsyncWith)):
                for it in c.items:
                    if it.optional_vars is not None:
                        _targets(it.optional_vars, names)
            elif isinstance(c, ast.ExceptHandler) and c.name:
                names.add(c.name)
            elif isinstance(c, (ast.Import, ast.ImportFrom)):
                for a in c.names:
                    names.add((a.asname or a.name).split('.')[0])
            elif isinstance(c, ast.NamedExpr):
                _targets(c.target, names)
            visit(c)
    visit(fn)
    return (names - glob), params


class DA:
    def __init__(self, fn):
        self.fn = fn
        self.locals, self.params = local_names(fn)
        self.assigned = self.locals - self.params | {
            t.id for n in ast.walk(fn) for t in ast.walk(n) if isinstance(n, (ast.Assign, ast.AugAssign, ast.For))
            and isinstance(t, ast.Name) and isinstance(t.ctx, ast.Store)}
        self.findings = []
        self.lower = {}          # name -> integer lower bound (from asserts)
        self.nreads = 0

    # -- expressions -----------------------------------------------------
    def reads(self, e, bound, comp_bound=frozenset()):
        if e is None:
            return
        if isinstance(e, ast.Name):
            if isinstance(e.ctx, ast.Load) and e.id in self.locals and e.id not in comp_bound:
                self.nreads += 1
                if e.id not in bound:
                    self.findings.append((e, e.id, 'read before a binding on some path'))
            return
        if isinstance(e, (ast.ListComp, ast.SetComp, ast.GeneratorExp, ast.DictComp)):
            cb = set(comp_bound)
            for g in e.generators:
                self.reads(g.iter, bound, frozenset(cb))
                t = set()
                _targets(g.target, t)
                cb |= t
                for c in g.ifs:
                    self.reads(c, bound, frozenset(cb))
            if isinstance(e, ast.DictComp):
                self.reads(e.key, bound, frozenset(cb))
                self.reads(e.value, bound, frozenset(cb))
            else:
                self.reads(e.elt, bound, frozenset(cb))
            return
        if isinstance(e, ast.Lambda):
            lb = {a.arg for a in e.args.args}
            self.reads(e.body, bound, frozenset(set(comp_bound) | lb))
            return
        if isinstance(e, ast.BoolOp):
            # short circuit: operands after the first are conditional, but reads in them are still reads
            for v in e.values:
                self.reads(v, bound, comp_bound)
            return
        for c in ast.iter_child_nodes(e):
            if isinstance(c, ast.expr) or isinstance(c, (ast.keyword, ast.Slice, ast.comprehension, ast.Starred)):
                self.reads(c, bound, comp_bound)

    # -- facts -----------------------------------------------------------
    def learn(self, test):
        if isinstance(test, ast.BoolOp) and isinstance(test.op, ast.And):
            for v in test.values:
                self.learn(v)
            return
        if isinstance(test, ast.Compare) and len(test.ops) == 1:
            l, r, op = test.left, test.comparators[0], test.ops[0]
            if isinstance(l, ast.Name) and isinstance(r, ast.Constant) and isinstance(r.value, int):
                if isinstance(op, ast.GtE):
                    self.lower[l.id] = max(self.lower.get(l.id, r.value), r.value)
                elif isinstance(op, ast.Gt):
                    self.lower[l.id] = max(self.lower.get(l.id, r.value + 1), r.value + 1)

    def nonempty(self, it):
        if isinstance(it, (ast.Tuple, ast.List)) and it.elts:
            return True
        if isinstance(it, ast.Call) and isinstance(it.func, ast.Name) and it.func.id in ('reversed', 'enumerate', 'sorted') \
                and it.args:
            return self.nonempty(it.args[0])
        if isinstance(it, ast.Call) and isinstance(it.func, ast.Name) and it.func.id == 'range' and 1 <= len(it.args) <= 2:
            lo = try_affine(it.args[0]) if len(it.args) == 2 else None
            hi = try_affine(it.args[-1])
            if hi is None or (len(it.args) == 2 and lo is None):
                return False
            d = hi - lo if lo is not None else hi
            # minimum of d under the known lower bounds (all coefficients must be >= 0 on bounded names)
            val = d.c
            for s in d.syms():
                c = d.coeff(s)
                if c < 0 or s not in self.lower:
                    return False
                val += c * self.lower[s]
            return val >= 1
        return False

    def cond_key(self, test):
        """(text, polarity) of a test whose value cannot change during the call: only names that are never assigned
        in the function (parameters, free names), no calls"""
        pol = True
        while isinstance(test, ast.UnaryOp) and isinstance(test.op, ast.Not):
            test, pol = test.operand, not pol
        for n in ast.walk(test):
            if isinstance(n, (ast.Call, ast.Subscript, ast.Attribute, ast.Await, ast.NamedExpr)):
                return None
            if isinstance(n, ast.Name) and n.id in self.assigned:
                return None
        return (' '.join(ast.unparse(test).split()), pol)

    # -- statements ------------------------------------------------------
    def block(self, stmts, bound):
        """returns the set bound at the normal exit, or None when the block never completes normally"""
        for s in stmts:
            if bound is None:
                return None
            bound = self.stmt(s, bound)
        return bound

    @staticmethod
    def join(a, b):
        if a is None:
            return b
        if b is None:
            return a
        return a & b

    def stmt(self, s, bound):
        if isinstance(s, ast.Assign):
            self.reads(s.value, bound)
            out = set(bound)
            for t in s.targets:
                self.target_reads(t, bound)
                _targets(t, out)
            if len(s.targets) == 1 and isinstance(s.targets[0], ast.Name):
                self.lower.pop(s.targets[0].id, None)
            return out
        if isinstance(s, ast.AugAssign):
            self.reads(s.value, bound)
            if isinstance(s.target, ast.Name):
                self.nreads += 1
                if s.target.id in self.locals and s.target.id not in bound:
                    self.findings.append((s.target, s.target.id, 'updated in place before a binding on some path'))
                self.lower.pop(s.target.id, None)
                return set(bound) | {s.target.id}
            self.target_reads(s.target, bound)
            return bound
        if isinstance(s, ast.AnnAssign):
            self.reads(s.value, bound)
            out = set(bound)
            if s.value is not None:
                _targets(s.target, out)
            return out
        if isinstance(s, ast.Expr):
            self.reads(s.value, bound)
            return bound
        if isinstance(s, ast.Assert):
            self.reads(s.test, bound)
            self.learn(s.test)
            return bound
        if isinstance(s, ast.Return):
            self.reads(s.value, bound)
            return None
        if isinstance(s, ast.Raise):
            self.reads(s.exc, bound)
            return None
        if isinstance(s, (ast.Break, ast.Continue)):
            self.exits[-1].append((type(s), set(bound)))
            return None
        if isinstance(s, (ast.Pass, ast.Import, ast.ImportFrom, ast.Global, ast.Nonlocal)):
            out = set(bound)
            if isinstance(s, (ast.Import, ast.ImportFrom)):
                for a in s.names:
                    out.add((a.asname or a.name).split('.')[0])
            return out
        if isinstance(s, (ast.FunctionDef, ast.AsyncFunctionDef, ast.ClassDef)):
            return set(bound) | {s.name}
        if isinstance(s, ast.Delete):
            return bound
        if isinstance(s, ast.If):
            self.reads(s.test, bound)
            key = self.cond_key(s.test)
            ba, bb = set(bound), set(bound)
            if key is not None:
                # bindings made earlier under the same (stable) condition are available again
                for polarity, bs in ((True, ba), (False, bb)):
                    tag = f'@{key[0]}|{key[1] == polarity}'
                    bs |= {x[:-len(tag)] for x in bound if x.endswith(tag)}
            a = self.block(s.body, ba)
            b = self.block(s.orelse, bb)
            out = self.join(a, b)
            if key is not None and a is not None and b is not None:
                out = set(out)
                out |= {f'{n}@{key[0]}|{key[1] == True}' for n in a - b if '@' not in n}
                out |= {f'{n}@{key[0]}|{key[1] == False}' for n in b - a if '@' not in n}
            return out
        if isinstance(s, (ast.For, ast.AsyncFor)):
            self.reads(s.iter, bound)
            ne = self.nonempty(s.iter)
            inner = set(bound)
            _targets(s.target, inner)
            self.exits.append([])
            body_out = self.block(s.body, set(inner))
            ex = self.exits.pop()
            # bindings at the top of later iterations are a superset of `inner`: one pass suffices for a must-analysis
            conts = [b for k, b in ex if k is ast.Continue]
            breaks = [b for k, b in ex if k is ast.Break]
            end_iter = body_out
            for c in conts:
                end_iter = self.join(end_iter, c)
            # normal loop exit: after zero iterations (bound) or after some iteration (end_iter)
            if ne:
                normal = end_iter if end_iter is not None else (None if not breaks else None)
            else:
                normal = self.join(set(bound), end_iter) if end_iter is not None else set(bound)
            if s.orelse and normal is not None:
                normal = self.block(s.orelse, normal)
            out = normal
            for b in breaks:
                out = self.join(out, b)
            return out
        if isinstance(s, ast.While):
            self.reads(s.test, bound)
            always = isinstance(s.test, ast.Constant) and bool(s.test.value)
            self.exits.append([])
            body_out = self.block(s.body, set(bound))
            ex = self.exits.pop()
            breaks = [b for k, b in ex if k is ast.Break]
            normal = None if always else set(bound)
            if s.orelse and normal is not None:
                normal = self.block(s.orelse, normal)
            out = normal
            for b in breaks:
                out = self.join(out, b)
            return out
        if isinstance(s, (ast.With, ast.AsyncWith)):
            out = set(bound)
            for it in s.items:
                self.reads(it.context_expr, out)
                if it.optional_vars is not None:
                    _targets(it.optional_vars, out)
            return self.block(s.body, out)
        if isinstance(s, ast.Try):
            body_out = self.block(s.body, set(bound))
            outs = []
            if body_out is not None:
                outs.append(self.block(s.orelse, body_out) if s.orelse else body_out)
            for h in s.handlers:
                hb = set(bound)
                if h.name:
                    hb.add(h.name)
                outs.append(self.block(h.body, hb))
            out = None
            for o in outs:
                out = self.join(out, o)
            if s.finalbody:
                fb = self.block(s.finalbody, set(bound))
                if out is not None and fb is not None:
                    out = out | (fb - bound)
            return out
        if isinstance(s, ast.Match):
            self.reads(s.subject, bound)
            out = None
            for c in s.cases:
                out = self.join(out, self.block(c.body, set(bound)))
            return self.join(out, set(bound))
        raise NotImplementedError(type(s).__name__)

    def target_reads(self, t, bound):
        if isinstance(t, (ast.Subscript, ast.Attribute)):
            self.reads(t.value, bound)
            if isinstance(t, ast.Subscript):
                self.reads(t.slice, bound)
        elif isinstance(t, (ast.Tuple, ast.List)):
            for e in t.elts:
                self.target_reads(e, bound)

    def run(self):
        self.exits = [[]]
        for d in self.fn.args.defaults + [d for d in self.fn.args.kw_defaults if d is not None]:
            pass
        self.block(self.fn.body, set(self.params))
        return self.findings


def check(fn):
    d = DA(fn)
    d.run()
    return d.findings, d.nreads


def loop_carried(fn, loop):
    """names read in an iteration of `loop` (a For node inside fn) whose value may stem from an earlier iteration: they
    are assigned somewhere in the loop body but not on every path of the current iteration before the read.
    Returns (findings [(node, name, reason)], number of reads examined)."""
    d = DA(fn)
    body_assigned = set()
    for s in loop.body:
        for n in ast.walk(s):
            if isinstance(n, ast.Name) and isinstance(n.ctx, ast.Store):
                body_assigned.add(n.id)
    start = (set(d.locals) | set(d.params)) - body_assigned
    _targets(loop.target, start)
    d.exits = [[]]
    d.block(loop.body, start)
    out = [(node, name, 'may carry the value of an earlier iteration (not bound on every path of the current one)')
           for node, name, _ in d.findings]
    return out, d.nreads
