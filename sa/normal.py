"""Generic behaviour-preserving rewrites applied before a rule reads a function (so that the rule sees one spelling).

  enumerate_to_range   for k, x in enumerate(S[:n]) / enumerate(S)   ->   for k in range(n) / range(len(S)),  x -> S[k]
                       (valid when neither S nor x is rebound inside the loop: x is the k-th row view of S)
  aug_from_binop       X = X + e (ints, X a plain name)               ->   X += e
"""
import ast
import copy

from .loader import norm


class _SubstName(ast.NodeTransformer):
    def __init__(self, name, repl):
        self.name, self.repl = name, repl

    def visit_Name(self, node):
        if node.id == self.name and isinstance(node.ctx, ast.Load):
            r = copy.deepcopy(self.repl)
            ast.copy_location(r, node)
            return r
        return node


def enumerate_to_range(fnode):
    fn = copy.deepcopy(fnode)
    for loop in [n for n in ast.walk(fn) if isinstance(n, ast.For)]:
        it = loop.iter
        if not (isinstance(it, ast.Call) and norm(it.func) == 'enumerate' and len(it.args) == 1 and not it.keywords and
                isinstance(loop.target, ast.Tuple) and len(loop.target.elts) == 2 and
                all(isinstance(x, ast.Name) for x in loop.target.elts)):
            continue
        k, x = loop.target.elts[0].id, loop.target.elts[1].id
        seq = it.args[0]
        if isinstance(seq, ast.Subscript) and isinstance(seq.slice, ast.Slice) and seq.slice.lower is None and \
                seq.slice.step is None and seq.slice.upper is not None and isinstance(seq.value, ast.Name):
            base, bound = seq.value, seq.slice.upper
        elif isinstance(seq, ast.Name):
            base, bound = seq, ast.Call(func=ast.Name(id='len', ctx=ast.Load()), args=[copy.deepcopy(seq)], keywords=[])
        else:
            continue
        stored = {n.id for b in loop.body for n in ast.walk(b) if isinstance(n, ast.Name) and isinstance(n.ctx, ast.Store)}
        if x in stored or base.id in stored or k in stored:
            continue
        repl = ast.Subscript(value=ast.Name(id=base.id, ctx=ast.Load()), slice=ast.Name(id=k, ctx=ast.Load()), ctx=ast.Load())
        loop.body = [_SubstName(x, repl).visit(b) for b in loop.body]
        loop.target = ast.copy_location(ast.Name(id=k, ctx=ast.Store()), loop.target)
        loop.iter = ast.copy_location(ast.Call(func=ast.Name(id='range', ctx=ast.Load()), args=[bound], keywords=[]), it)
    ast.fix_missing_locations(fn)
    return fn


def aug_from_binop(fnode, keep=frozenset()):
    fn = copy.deepcopy(fnode)
    for n in ast.walk(fn):
        for f in ('body', 'orelse', 'finalbody'):
            blk = getattr(n, f, None)
            if not (isinstance(blk, list) and blk and isinstance(blk[0], ast.stmt)):
                continue
            for i, s in enumerate(blk):
                if isinstance(s, ast.Assign) and len(s.targets) == 1 and isinstance(s.targets[0], ast.Name) and \
                        isinstance(s.value, ast.BinOp) and isinstance(s.value.op, ast.Add) and shape_key(s) not in keep:
                    nm = s.targets[0].id
                    l, r = s.value.left, s.value.right
                    other = r if isinstance(l, ast.Name) and l.id == nm else (l if isinstance(r, ast.Name) and r.id == nm else None)
                    if other is not None and isinstance(other, ast.Constant) and isinstance(other.value, int):
                        blk[i] = ast.copy_location(ast.AugAssign(target=ast.Name(id=nm, ctx=ast.Store()), op=ast.Add(),
                                                                 value=other), s)
    ast.fix_missing_locations(fn)
    return fn


def wrap(fi, *passes):
    from .canon import CanonFunc
    node = fi.node
    for p in passes:
        node = p(node)
    return CanonFunc(fi, node, getattr(fi, 'renamed', {}))


def inline_site_aliases(fnode):
    """T = X.A[e] (T bound once in its statement block, X.A[..] not stored into later in that block, T never rebound in
    the function)  ->  uses of T in the rest of the block replaced by X.A[e], the assignment dropped"""
    fn = copy.deepcopy(fnode)
    stores = {}
    for n in ast.walk(fn):
        if isinstance(n, ast.Name) and isinstance(n.ctx, ast.Store):
            stores[n.id] = stores.get(n.id, 0) + 1
    for n in list(ast.walk(fn)):
        for f in ('body', 'orelse', 'finalbody'):
            blk = getattr(n, f, None)
            if not (isinstance(blk, list) and blk and isinstance(blk[0], ast.stmt)):
                continue
            i = 0
            while i < len(blk):
                s = blk[i]
                if isinstance(s, ast.Assign) and len(s.targets) == 1 and isinstance(s.targets[0], ast.Name) and \
                        stores.get(s.targets[0].id) == 1 and isinstance(s.value, ast.Subscript) and \
                        isinstance(s.value.value, ast.Attribute) and s.value.value.attr == 'A' and \
                        isinstance(s.value.value.value, ast.Name):
                    t = s.targets[0].id
                    owner = norm(s.value.value)
                    rest = blk[i + 1:]
                    written = any(isinstance(x, ast.Subscript) and isinstance(x.ctx, ast.Store) and norm(x.value) == owner
                                  for r in rest for x in ast.walk(r))
                    idx_names = {x.id for x in ast.walk(s.value.slice) if isinstance(x, ast.Name)}
                    idx_rebound = any(isinstance(x, ast.Name) and isinstance(x.ctx, ast.Store) and x.id in idx_names
                                      for r in rest for x in ast.walk(r))
                    if not written and not idx_rebound:
                        blk[i + 1:] = [_SubstName(t, s.value).visit(r) for r in rest]
                        del blk[i]
                        continue
                i += 1
    ast.fix_missing_locations(fn)
    return fn


def dictcomp_to_loops(fnode):
    """T = {k: v for k in R [if c]} (one generator; v may again be such a comprehension)
         ->  T = {} ; for k in R: [if c:] T[k] = v      (recursively for nested values)"""
    fn = copy.deepcopy(fnode)

    def expand(target, comp, loc):
        out = [ast.Assign(targets=[copy.deepcopy(target)], value=ast.Dict(keys=[], values=[]))]
        g = comp.generators[0]
        store = copy.deepcopy(target)
        for x in ast.walk(store):
            if hasattr(x, 'ctx'):
                x.ctx = ast.Load()
        slot = ast.Subscript(value=store, slice=copy.deepcopy(comp.key), ctx=ast.Store())
        if isinstance(comp.value, ast.DictComp) and len(comp.value.generators) == 1:
            inner = expand(slot, comp.value, loc)
        else:
            inner = [ast.Assign(targets=[slot], value=copy.deepcopy(comp.value))]
        body = inner
        for c in reversed(g.ifs):
            body = [ast.If(test=copy.deepcopy(c), body=body, orelse=[])]
        out.append(ast.For(target=copy.deepcopy(g.target), iter=copy.deepcopy(g.iter), body=body, orelse=[]))
        for o in out:
            ast.copy_location(o, loc)
        return out
    for n in list(ast.walk(fn)):
        for f in ('body', 'orelse', 'finalbody'):
            blk = getattr(n, f, None)
            if not (isinstance(blk, list) and blk and isinstance(blk[0], ast.stmt)):
                continue
            i = 0
            while i < len(blk):
                s = blk[i]
                if isinstance(s, ast.Assign) and len(s.targets) == 1 and isinstance(s.value, ast.DictComp) and \
                        len(s.value.generators) == 1:
                    new = expand(s.targets[0], s.value, s)
                    blk[i:i + 1] = new
                    i += len(new)
                    continue
                i += 1
    ast.fix_missing_locations(fn)
    return fn


def inline_procedures(helpers):
    """pass factory: `helper(a, b)` as a statement, helper = straight-line sequence of assignments without return value
    (a procedure of the same module)  ->  its statements with the formals replaced by the actual arguments"""
    def run(fnode):
        fn = copy.deepcopy(fnode)
        for n in list(ast.walk(fn)):
            for f in ('body', 'orelse', 'finalbody'):
                blk = getattr(n, f, None)
                if not (isinstance(blk, list) and blk and isinstance(blk[0], ast.stmt)):
                    continue
                i = 0
                while i < len(blk):
                    s = blk[i]
                    if isinstance(s, ast.Expr) and isinstance(s.value, ast.Call) and isinstance(s.value.func, ast.Name) and \
                            s.value.func.id in helpers and s.value.func.id != fn.name and not s.value.keywords:
                        h = helpers[s.value.func.id]
                        body = [b for b in h.body if not (isinstance(b, ast.Expr) and isinstance(b.value, ast.Constant))
                                and not isinstance(b, ast.Assert)]
                        locals_ = {x.id for b in body for x in ast.walk(b) if isinstance(x, ast.Name) and
                                   isinstance(x.ctx, ast.Store)}
                        if body and all(isinstance(b, (ast.Assign, ast.AugAssign)) for b in body) and not locals_ and \
                                len(h.args.args) == len(s.value.args):
                            new = []
                            for b in body:
                                b2 = copy.deepcopy(b)
                                for a, v in zip(h.args.args, s.value.args):
                                    b2 = _SubstAny(a.arg, v).visit(b2)
                                ast.copy_location(b2, s)
                                new.append(b2)
                            blk[i:i + 1] = new
                            i += len(new)
                            continue
                    i += 1
        ast.fix_missing_locations(fn)
        return fn
    return run


class _SubstAny(ast.NodeTransformer):
    """replace every occurrence of a name (load or store context) by an expression"""
    def __init__(self, name, repl):
        self.name, self.repl = name, repl

    def visit_Name(self, node):
        if node.id == self.name:
            r = copy.deepcopy(self.repl)
            for x in ast.walk(r):
                if hasattr(x, 'ctx') and x is r:
                    x.ctx = node.ctx
            ast.copy_location(r, node)
            return r
        return node


def _store_counts(fn):
    stores = {}
    for n in ast.walk(fn):
        if isinstance(n, ast.Name) and isinstance(n.ctx, ast.Store):
            stores[n.id] = stores.get(n.id, 0) + 1
        elif isinstance(n, ast.arg):
            stores[n.arg] = stores.get(n.arg, 0) + 1
    return stores


def _inline_where(fnode, accept):
    """T = <expr> with accept(expr) true, T stored exactly once in the function, every name inside <expr> stored at most
    once (parameters, loop variables of enclosing loops, other single-assignment names): uses of T in the rest of its
    block are replaced by <expr> and the assignment is dropped"""
    fn = copy.deepcopy(fnode)
    stores = _store_counts(fn)
    for n in list(ast.walk(fn)):
        for f in ('body', 'orelse', 'finalbody'):
            blk = getattr(n, f, None)
            if not (isinstance(blk, list) and blk and isinstance(blk[0], ast.stmt)):
                continue
            i = 0
            while i < len(blk):
                s = blk[i]
                if isinstance(s, ast.Assign) and len(s.targets) == 1 and isinstance(s.targets[0], ast.Name) and \
                        stores.get(s.targets[0].id) == 1 and accept(s.value):
                    t = s.targets[0].id
                    rest = blk[i + 1:]
                    operands = {x.id for x in ast.walk(s.value) if isinstance(x, ast.Name)}
                    rebound = {x.id for r in rest for x in ast.walk(r) if isinstance(x, ast.Name) and
                               isinstance(x.ctx, ast.Store)}
                    if operands & rebound:
                        i += 1
                        continue
                    # no store through the alias (T[k] = ...) and no use outside this block
                    uses_elsewhere = sum(1 for x in ast.walk(fn) if isinstance(x, ast.Name) and x.id == t) - \
                        sum(1 for r in rest for x in ast.walk(r) if isinstance(x, ast.Name) and x.id == t) - 1
                    if uses_elsewhere == 0:
                        blk[i + 1:] = [_SubstName(t, s.value).visit(r) for r in rest]
                        del blk[i]
                        continue
                i += 1
    ast.fix_missing_locations(fn)
    return fn


def inline_self_aliases(fnode):
    """T = self.<attr>[..][..]  (a row / entry of a node-family table)"""
    def accept(v):
        while isinstance(v, ast.Subscript):
            v = v.value
        return isinstance(v, ast.Attribute) and isinstance(v.value, ast.Name) and v.value.id == 'self' and \
            v is not None
    def acc(v):
        return isinstance(v, ast.Subscript) and accept(v)
    return _inline_where(fnode, acc)


def inline_scalar_temps(fnode):
    """T = <integer arithmetic over names, constants and self.L> (e.g. h = L // 2)"""
    def accept(v):
        if not isinstance(v, (ast.BinOp, ast.UnaryOp)):
            return False
        for x in ast.walk(v):
            if not isinstance(x, (ast.BinOp, ast.Name, ast.Constant, ast.Add, ast.Sub, ast.Mult, ast.FloorDiv, ast.Load,
                                  ast.UnaryOp, ast.USub, ast.Attribute)):
                return False
            if isinstance(x, ast.Attribute) and norm(x) != 'self.L':
                return False
            if isinstance(x, ast.Constant) and not isinstance(x.value, int):
                return False
        return True
    return _inline_where(fnode, accept)


def class_method(fi):
    """methods of the node-table classes as the C07 rules read them: local name of self.L canonical, dict comprehensions
    as loops, integer temporaries and aliases of table rows inlined"""
    from .canon import canonical, CLASS_L_ROLES
    return wrap(canonical(fi, CLASS_L_ROLES), dictcomp_to_loops, inline_scalar_temps, inline_self_aliases)


# ======================================================================================================
# load-time normalisation of a whole function (sa/loader.py): the pinned tree's vocabulary is the canonical form
PURE_CALLS = {'len', 'min', 'max', 'abs', 'int', 'range'}      # range objects are immutable


def _movable(e):
    """expression without side effects or allocation whose value depends only on its operands"""
    if isinstance(e, (ast.Name, ast.Constant)):
        return True
    if isinstance(e, ast.Attribute):
        return _movable(e.value)
    if isinstance(e, ast.Subscript):
        s = e.slice
        parts = [s.lower, s.upper, s.step] if isinstance(s, ast.Slice) else (list(s.elts) if isinstance(s, ast.Tuple) else [s])
        return _movable(e.value) and all(p is None or (_movable(p) if not isinstance(p, ast.Slice) else True) for p in parts)
    if isinstance(e, ast.UnaryOp):
        return _movable(e.operand)
    if isinstance(e, ast.BinOp):
        return _movable(e.left) and _movable(e.right)
    if isinstance(e, ast.Compare):
        return _movable(e.left) and all(_movable(c) for c in e.comparators)
    if isinstance(e, (ast.Tuple, ast.List)):
        return all(_movable(x) for x in e.elts)
    if isinstance(e, ast.Call) and isinstance(e.func, ast.Name) and e.func.id in PURE_CALLS and not e.keywords:
        return all(_movable(a) for a in e.args)
    # re-arrangements of an array: pure functions of their operand (a view or a fresh array with the same entries)
    if isinstance(e, ast.Call) and isinstance(e.func, ast.Attribute) and e.func.attr in ('transpose', 'reshape', 'conj') and \
            not e.keywords and _movable(e.func.value):
        return all(_movable(a) for a in e.args)
    if isinstance(e, ast.Call) and norm(e.func) in ('np.transpose', 'np.reshape', 'np.conj') and not e.keywords:
        return all(_movable(a) for a in e.args)
    # an array written out as a literal of constants: every evaluation gives an equal fresh array
    if isinstance(e, ast.Call) and norm(e.func) == 'np.array' and len(e.args) == 1 and _const_literal(e.args[0]) and \
            all(k.arg == 'dtype' and _movable(k.value) for k in e.keywords):
        return True
    return False


def const_array_args(fnode, callee_prefix='local_orthonormalize'):
    """`one = np.array(<constant literal>)` bound once in the function and read only as a positional argument of the
    package's local_orthonormalize_* helpers (which never write their arguments - C19.PURE): the literal is put back at
    those argument positions.  Used by the rules that recognise the dummy neighbour of the boundary factorisation."""
    fn = copy.deepcopy(fnode)
    stores = _store_counts(fn)
    for s in list(ast.walk(fn)):
        for f in ('body', 'orelse', 'finalbody'):
            blk = getattr(s, f, None)
            if not (isinstance(blk, list) and blk and isinstance(blk[0], ast.stmt)):
                continue
            for d in list(blk):
                if not (isinstance(d, ast.Assign) and len(d.targets) == 1 and isinstance(d.targets[0], ast.Name) and
                        stores.get(d.targets[0].id) == 1 and isinstance(d.value, ast.Call) and norm(d.value.func) == 'np.array' and
                        d.value.args and _const_literal(d.value.args[0])):
                    continue
                X = d.targets[0].id
                loads = [n for n in ast.walk(fn) if isinstance(n, ast.Name) and n.id == X and isinstance(n.ctx, ast.Load)]
                argpos = [a for c in ast.walk(fn) if isinstance(c, ast.Call) and norm(c.func).split('.')[-1].startswith(callee_prefix)
                          for a in c.args if isinstance(a, ast.Name) and a.id == X]
                if not loads or len(loads) != len(argpos):
                    continue

                class R(ast.NodeTransformer):
                    def visit_Call(self, node):
                        self.generic_visit(node)
                        if norm(node.func).split('.')[-1].startswith(callee_prefix):
                            node.args = [ast.copy_location(copy.deepcopy(d.value), a) if isinstance(a, ast.Name) and a.id == X else a
                                         for a in node.args]
                        return node
                R().visit(fn)
                blk.remove(d)
    ast.fix_missing_locations(fn)
    return fn


def _allocates(e):
    return any(isinstance(n, (ast.List, ast.Dict, ast.Set, ast.ListComp, ast.DictComp, ast.SetComp)) or
               (isinstance(n, ast.Call) and norm(n.func) == 'np.array') for n in ast.walk(e))


def _const_literal(e):
    if isinstance(e, ast.Constant):
        return isinstance(e.value, (int, float, complex))
    if isinstance(e, (ast.List, ast.Tuple)):
        return all(_const_literal(x) for x in e.elts)
    return False


def coalesce_copies(fnode):
    """tmp = E ; ... ; X = tmp   (tmp generated by the helper inliner, bound once, read only by that copy; X not referenced
    in between)   ->   X = E ; ...        (the copy disappears)"""
    fn = copy.deepcopy(fnode)
    for n in list(ast.walk(fn)):
        for f in ('body', 'orelse', 'finalbody'):
            blk = getattr(n, f, None)
            if not (isinstance(blk, list) and blk and isinstance(blk[0], ast.stmt)):
                continue
            i = 0
            while i < len(blk):
                s_ = blk[i]
                if isinstance(s_, ast.Assign) and len(s_.targets) == 1 and isinstance(s_.targets[0], ast.Name) and \
                        isinstance(s_.value, ast.Name) and '__h' in s_.value.id:
                    tmp, X = s_.value.id, s_.targets[0].id
                    defs = [j for j in range(i) if isinstance(blk[j], ast.Assign) and len(blk[j].targets) == 1 and
                            isinstance(blk[j].targets[0], ast.Name) and blk[j].targets[0].id == tmp]
                    total = sum(1 for x in ast.walk(fn) if isinstance(x, ast.Name) and x.id == tmp)
                    tmp_stores = sum(1 for x in ast.walk(fn) if isinstance(x, ast.Name) and x.id == tmp and
                                     isinstance(x.ctx, ast.Store))
                    first_use_of_X = min((x.lineno, x.col_offset) for x in ast.walk(fn) if isinstance(x, ast.Name) and x.id == X)
                    x_stores = sum(1 for x in ast.walk(fn) if isinstance(x, ast.Name) and x.id == X and isinstance(x.ctx, ast.Store))
                    if tmp_stores == 1 and x_stores == 1 and blk is fn.body and \
                            not any(isinstance(x, ast.Name) and x.id == X for b in blk[:i] for x in ast.walk(b)):
                        # X is born by this copy of a helper local that is bound once: the helper local takes X's name
                        class _R(ast.NodeTransformer):
                            def visit_Name(self, node):
                                if node.id == tmp:
                                    node.id = X
                                return node
                        del blk[i]
                        _R().visit(fn)
                        continue
                    if len(defs) == 1 and total == 2:
                        j = defs[0]
                        between = blk[j + 1:i]
                        if not any(isinstance(x, ast.Name) and x.id == X for b in between for x in ast.walk(b)) and \
                                not any(isinstance(x, ast.Name) and x.id == X for x in ast.walk(blk[j].value)) or X == tmp:
                            blk[j].targets[0].id = X
                            del blk[i]
                            continue
                i += 1
    ast.fix_missing_locations(fn)
    return fn


def negative_indices(fnode):
    """X[len(X) - k]  ->  X[-k]   (k a positive integer constant; same element of a list / array)"""
    fn = copy.deepcopy(fnode)
    for n in ast.walk(fn):
        if isinstance(n, ast.Subscript) and isinstance(n.slice, ast.BinOp) and isinstance(n.slice.op, ast.Sub) and \
                isinstance(n.slice.right, ast.Constant) and isinstance(n.slice.right.value, int) and n.slice.right.value >= 1 and \
                isinstance(n.slice.left, ast.Call) and norm(n.slice.left.func) == 'len' and len(n.slice.left.args) == 1 and \
                norm(n.slice.left.args[0]) == norm(n.value):
            n.slice = ast.copy_location(ast.UnaryOp(op=ast.USub(), operand=ast.Constant(value=n.slice.right.value)), n.slice)
    ast.fix_missing_locations(fn)
    return fn


def forward_site_stores(known):
    """X.A[k] = T (T a local the pinned version does not have): later reads of T in the same block are reads of X.A[k],
    until X.A[..], T or a name inside k is assigned again"""
    known = set(known)

    def run(fnode):
        fn = copy.deepcopy(fnode)
        for n in list(ast.walk(fn)):
            for f in ('body', 'orelse', 'finalbody'):
                blk = getattr(n, f, None)
                if not (isinstance(blk, list) and blk and isinstance(blk[0], ast.stmt)):
                    continue
                for i, s_ in enumerate(blk):
                    if not (isinstance(s_, ast.Assign) and len(s_.targets) == 1 and isinstance(s_.value, ast.Name) and
                            s_.value.id not in known and isinstance(s_.targets[0], ast.Subscript) and
                            isinstance(s_.targets[0].value, ast.Attribute) and s_.targets[0].value.attr == 'A'):
                        continue
                    T = s_.value.id
                    slot = s_.targets[0]
                    owner = norm(slot.value)
                    idx_names = {x.id for x in ast.walk(slot.slice) if isinstance(x, ast.Name)}
                    load = copy.deepcopy(slot)
                    load.ctx = ast.Load()
                    for j in range(i + 1, len(blk)):
                        r = blk[j]
                        stop = False
                        for x in ast.walk(r):
                            if isinstance(x, ast.Name) and isinstance(x.ctx, ast.Store) and (x.id == T or x.id in idx_names):
                                stop = True
                            if isinstance(x, ast.Subscript) and isinstance(x.ctx, ast.Store) and norm(x.value) == owner:
                                stop = True
                        blk[j] = _SubstName(T, load).visit(r)
                        if stop:
                            break
        ast.fix_missing_locations(fn)
        return fn
    return run


def split_tuple_assigns(fnode, keep=frozenset()):
    """a, b = x, y  ->  a = x ; b = y   when no target (or a prefix object of a target) is read by a later component"""
    fn = copy.deepcopy(fnode)
    for n in list(ast.walk(fn)):
        for f in ('body', 'orelse', 'finalbody'):
            blk = getattr(n, f, None)
            if not (isinstance(blk, list) and blk and isinstance(blk[0], ast.stmt)):
                continue
            i = 0
            while i < len(blk):
                s = blk[i]
                if isinstance(s, ast.Assign) and len(s.targets) == 1 and isinstance(s.targets[0], ast.Tuple) and \
                        isinstance(s.value, ast.Tuple) and len(s.targets[0].elts) == len(s.value.elts) and \
                        not any(isinstance(t, ast.Starred) for t in s.targets[0].elts) and shape_key(s) not in keep:
                    tg, vs = s.targets[0].elts, s.value.elts
                    ok = True
                    for k in range(1, len(vs)):
                        read = {norm(x) for x in ast.walk(vs[k]) if isinstance(x, (ast.Name, ast.Subscript, ast.Attribute))}
                        for t in tg[:k]:
                            tt = norm(t)
                            base = tt.split('[')[0].split('.')[0]
                            if tt in read or (isinstance(t, ast.Name) and t.id in {norm(x) for x in ast.walk(vs[k])
                                                                                    if isinstance(x, ast.Name)}):
                                ok = False
                            if not isinstance(t, ast.Name) and any(r == tt or r.startswith(tt) for r in read):
                                ok = False
                    if ok:
                        new = [ast.copy_location(ast.Assign(targets=[t], value=v), s) for t, v in zip(tg, vs)]
                        blk[i:i + 1] = new
                        i += len(new)
                        continue
                i += 1
    ast.fix_missing_locations(fn)
    return fn


def inline_unknown_temps(known, keep=frozenset()):
    """pass factory: T = <movable expr>, T not a name of the pinned version of the function, bound exactly once, used only
    in later statements of the block of its definition (nested blocks included), no operand (nor an object reachable
    from an operand's base name) stored to in between  ->  uses replaced, definition dropped"""
    known = set(known)

    def run(fnode):
        fn = copy.deepcopy(fnode)
        present = {x.id for x in ast.walk(fn) if isinstance(x, ast.Name)} | {a.arg for a in ast.walk(fn) if isinstance(a, ast.arg)}
        # a consistently renamed local leaves its old name missing; when no name of the pinned version is missing, every
        # unknown name is a genuinely new temporary and the shape of its definition does not matter
        nothing_renamed = not (known - present - {'_'})
        for _ in range(4):
            stores = _store_counts(fn)
            changed = False
            for n in list(ast.walk(fn)):
                for f in ('body', 'orelse', 'finalbody'):
                    blk = getattr(n, f, None)
                    if not (isinstance(blk, list) and blk and isinstance(blk[0], ast.stmt)):
                        continue
                    i = 0
                    while i < len(blk):
                        s = blk[i]
                        if isinstance(s, ast.Assign) and len(s.targets) == 1 and isinstance(s.targets[0], ast.Name) and \
                                s.targets[0].id not in known and stores.get(s.targets[0].id) == 1 and _movable(s.value) and \
                                (nothing_renamed or shape_key(s) not in keep) and not _mutated_through(fn, s.targets[0].id):
                            t = s.targets[0].id
                            rest = blk[i + 1:]
                            total = sum(1 for x in ast.walk(fn) if isinstance(x, ast.Name) and x.id == t)
                            inrest = sum(1 for r in rest for x in ast.walk(r) if isinstance(x, ast.Name) and x.id == t)
                            operands = {x.id for x in ast.walk(s.value) if isinstance(x, ast.Name)}
                            use_idx = [k for k, r in enumerate(rest) if any(isinstance(x, ast.Name) and x.id == t
                                                                            for x in ast.walk(r))]
                            upto = use_idx[-1] if use_idx else 0
                            # stores that matter are those executed before the last use: all statements before the one
                            # that holds the last use (a store in that statement itself happens after its operands are read,
                            # unless it is a compound statement)
                            scan = rest[:upto] + ([rest[upto]] if use_idx and isinstance(rest[upto], (ast.For, ast.While, ast.If,
                                                                                                       ast.With, ast.Try)) else [])
                            conflict = _conflicts(s.value, scan)
                            # the next value of a counter (`N = D + e ... D = N`) is an idiom of its own, left to the
                            # rules that know it (sa/blocknorm.py N5)
                            copied_back = any(isinstance(r, ast.Assign) and len(r.targets) == 1 and
                                              isinstance(r.targets[0], ast.Name) and r.targets[0].id in operands and
                                              isinstance(r.value, ast.Name) and r.value.id == t for r in rest)
                            # a display / literal array is a new object per evaluation: it may move to its single use, it
                            # is never duplicated
                            if _allocates(s.value) and inrest != 1:
                                conflict = True
                            if total - 1 == inrest and not conflict and not copied_back:
                                blk[i + 1:] = [_SubstName(t, s.value).visit(r) for r in rest]
                                del blk[i]
                                changed = True
                                continue
                        i += 1
            if not changed:
                break
        ast.fix_missing_locations(fn)
        return fn
    return run


def _length_name(fn, base_text):
    """a local of the function that holds the number of sites of the object whose list `base_text` is (X.A -> X.nsites)"""
    obj = base_text[:-2] if base_text.endswith('.A') else None
    for s in ast.walk(fn):
        if isinstance(s, ast.Assign) and len(s.targets) == 1 and isinstance(s.targets[0], ast.Name):
            v = norm(s.value)
            if v == f'len({base_text})' or (obj and v == f'{obj}.nsites'):
                return ast.Name(id=s.targets[0].id, ctx=ast.Load())
    return None


def index_loops(fnode, keep=frozenset()):
    """for x in S[a:b] / for x, y in zip(S1[a:b], S2[a:b]) / for k, .. in enumerate(.., start=a)
         ->  for k in range(a, <end>) with x -> S[k] ...    (S.. not rebound or resized in the loop body)"""
    fn = copy.deepcopy(fnode)
    counter = [0]

    def seq_info(e):
        """(base expr, lower, upper) of `S` / `S[a:b]`; None otherwise"""
        if isinstance(e, ast.Subscript) and isinstance(e.slice, ast.Slice) and e.slice.step is None and _movable(e.value):
            return e.value, e.slice.lower, e.slice.upper
        if isinstance(e, (ast.Name, ast.Attribute)) and _movable(e):
            return e, None, None
        return None

    def end_expr(base, upper):
        ln = _length_name(fn, norm(base)) or ast.Call(func=ast.Name(id='len', ctx=ast.Load()), args=[copy.deepcopy(base)],
                                                      keywords=[])
        if upper is None:
            return ln
        if isinstance(upper, ast.UnaryOp) and isinstance(upper.op, ast.USub) and isinstance(upper.operand, ast.Constant):
            return ast.BinOp(left=ln, op=ast.Sub(), right=copy.deepcopy(upper.operand))
        if isinstance(upper, ast.Constant) and isinstance(upper.value, int) and upper.value < 0:
            return ast.BinOp(left=ln, op=ast.Sub(), right=ast.Constant(value=-upper.value))
        return copy.deepcopy(upper)
    for loop in [n for n in ast.walk(fn) if isinstance(n, ast.For)]:
        it, tgt = loop.iter, loop.target
        if shape_key(loop) in keep:
            continue
        start = None
        kname = None
        if isinstance(it, ast.Call) and norm(it.func) == 'enumerate' and it.args and isinstance(tgt, ast.Tuple) and \
                len(tgt.elts) == 2 and isinstance(tgt.elts[0], ast.Name):
            st = [k.value for k in it.keywords if k.arg == 'start'] or list(it.args[1:2])
            start = st[0] if st else ast.Constant(value=0)
            kname = tgt.elts[0].id
            it, tgt = it.args[0], tgt.elts[1]
        seqs, names = None, None
        rev = False
        if isinstance(it, ast.Call) and norm(it.func) == 'reversed' and len(it.args) == 1 and kname is None:
            rev, it = True, it.args[0]                  # reversed(zip(..)) is not valid Python, reversed(S) is
        if isinstance(it, ast.Call) and norm(it.func) == 'zip' and not it.keywords and isinstance(tgt, ast.Tuple) and \
                len(tgt.elts) == len(it.args) and all(isinstance(x, ast.Name) for x in tgt.elts):
            seqs, names = list(it.args), [x.id for x in tgt.elts]
            if all(isinstance(x, ast.Call) and norm(x.func) == 'reversed' and len(x.args) == 1 for x in seqs) and kname is None:
                rev, seqs = True, [x.args[0] for x in seqs]     # zip(reversed(a), reversed(b)): equal lengths asserted by the .A family rule below
        elif isinstance(tgt, ast.Name):
            seqs, names = [it], [tgt.id]
        if seqs is None:
            continue
        if rev and not all(norm(seq_info(x)[0]).endswith('.A') and seq_info(x)[1] is None and seq_info(x)[2] is None
                           for x in seqs if seq_info(x) is not None):
            continue
        infos = [seq_info(x) for x in seqs]
        if any(i is None for i in infos):
            continue
        if start is None and kname is None and len(seqs) == 1 and infos[0][1] is None and infos[0][2] is None and \
                not isinstance(seqs[0], ast.Subscript):
            # plain `for x in S`: only lists of site tensors are rewritten (S = X.A); other iterables may be anything
            if not norm(infos[0][0]).endswith('.A'):
                continue
        lowers = {norm(i[1]) if i[1] is not None else '0' for i in infos}
        if len(lowers) != 1:
            continue
        lo = infos[0][1] if infos[0][1] is not None else ast.Constant(value=0)
        if start is not None and norm(start) != norm(lo):
            continue
        ends = {norm(end_expr(i[0], i[2])) for i in infos}
        bases = [norm(i[0]) for i in infos]
        # zip stops at the shortest: only sequences of one family (X.A lists of operands asserted equally long) are merged
        end = end_expr(infos[0][0], infos[0][2])
        if len(ends) != 1 and not all(b.endswith('.A') for b in bases):
            continue
        body_stores = set()
        for b in loop.body:
            for x in ast.walk(b):
                if isinstance(x, ast.Name) and isinstance(x.ctx, ast.Store):
                    body_stores.add(x.id)
        base_names = {n.id for i in infos for n in ast.walk(i[0]) if isinstance(n, ast.Name)}
        if set(names) & body_stores or (kname and kname in body_stores) or base_names & body_stores:
            continue
        resized = any(isinstance(x, ast.Call) and isinstance(x.func, ast.Attribute) and
                      x.func.attr in ('append', 'pop', 'insert', 'remove', 'extend', 'clear') and norm(x.func.value) in bases
                      for b in loop.body for x in ast.walk(b))
        if resized:
            continue
        if kname is None:
            counter[0] += 1
            kname = f'k__n{counter[0]}'
        for nm, inf in zip(names, infos):
            repl = ast.Subscript(value=copy.deepcopy(inf[0]), slice=ast.Name(id=kname, ctx=ast.Load()), ctx=ast.Load())
            loop.body = [_SubstName(nm, repl).visit(b) for b in loop.body]
        loop.target = ast.copy_location(ast.Name(id=kname, ctx=ast.Store()), loop.target)
        args = [end] if norm(lo) == '0' else [copy.deepcopy(lo), end]
        rng = ast.Call(func=ast.Name(id='range', ctx=ast.Load()), args=args, keywords=[])
        if rev:
            rng = ast.Call(func=ast.Name(id='reversed', ctx=ast.Load()), args=[rng], keywords=[])
        loop.iter = ast.copy_location(rng, loop.iter)
    ast.fix_missing_locations(fn)
    return fn


def _terminates(stmts):
    return bool(stmts) and isinstance(stmts[-1], (ast.Return, ast.Raise, ast.Continue, ast.Break))


class _Rename(ast.NodeTransformer):
    def __init__(self, m):
        self.m = m

    def visit_Name(self, node):
        if node.id in self.m:
            return ast.copy_location(ast.Name(id=self.m[node.id], ctx=node.ctx), node)
        return node


def _shift_cols(node, off):
    for x in ast.walk(node):
        if hasattr(x, 'col_offset'):
            x.col_offset += off
            if getattr(x, 'end_col_offset', None) is not None:
                x.end_col_offset += off
    return node


def sink_common_tail(known, keep=frozenset()):
    """pass factory.  The inverse of "hoist the common tail out of the branches":

        if a: S1; x = e1     elif b: S2; x = e2     else: raise / S3; x = e3
        TAIL(x)                                             (x: names the pinned version of the function does not have)

    becomes the chain with a copy of TAIL appended to every branch that falls through (x renamed apart per branch, so that
    the temporary-inlining pass can put e1 / e2 back into the copy).  Tail duplication preserves the semantics; it is
    applied only when every branch that falls through binds all of those names and the chain has an else."""
    known = set(known)
    counter = [0]

    def run(fnode):
        fn = copy.deepcopy(fnode)
        changed = True
        rounds = 0
        while changed and rounds < 6:
            changed = False
            rounds += 1
            for n in list(ast.walk(fn)):
                for f in ('body', 'orelse', 'finalbody'):
                    blk = getattr(n, f, None)
                    if not (isinstance(blk, list) and blk and isinstance(blk[0], ast.stmt)):
                        continue
                    for k, s in enumerate(blk):
                        if not isinstance(s, ast.If) or not blk[k + 1:]:
                            continue
                        # branches of the chain
                        branches = []
                        cur = s
                        while True:
                            branches.append(cur.body)
                            if len(cur.orelse) == 1 and isinstance(cur.orelse[0], ast.If):
                                cur = cur.orelse[0]
                                continue
                            branches.append(cur.orelse)
                            break
                        if not branches[-1]:
                            continue                    # no else: one way through the chain binds nothing
                        falls = [b for b in branches if not _terminates(b)]
                        if len(falls) < 2:
                            continue

                        def bound(b):
                            out = set()
                            for st in b:
                                if isinstance(st, ast.Assign):
                                    for t in st.targets:
                                        for x in ([t] if isinstance(t, ast.Name) else (t.elts if isinstance(t, ast.Tuple) else [])):
                                            if isinstance(x, ast.Name):
                                                out.add(x.id)
                            return out
                        common = set.intersection(*[bound(b) for b in falls]) - known
                        tail = blk[k + 1:]
                        used = {x.id for t in tail for x in ast.walk(t) if isinstance(x, ast.Name) and isinstance(x.ctx, ast.Load)}
                        names = common & used
                        if not names:
                            continue
                        # the pinned version may use the very same idiom under other names (a consistent renaming): then
                        # there is nothing to undo
                        binders = [st for b in falls for st in b if isinstance(st, ast.Assign) and
                                   any(isinstance(x, ast.Name) and x.id in names and isinstance(x.ctx, ast.Store) for x in ast.walk(st))]
                        if binders and all(shape_key(st) in keep for st in binders):
                            continue
                        # every other read of these names must be served by a chain of its own (the same idiom elsewhere in the
                        # function): a read that could see the values bound here from outside the tail forbids the renaming
                        tail_ids = {id(y) for t in tail for y in ast.walk(t)} | {id(y) for b in branches for st in b for y in ast.walk(st)}

                        def served(x):
                            for n2 in ast.walk(fn):
                                for f2 in ('body', 'orelse', 'finalbody'):
                                    b2 = getattr(n2, f2, None)
                                    if not (isinstance(b2, list) and b2 and isinstance(b2[0], ast.stmt)):
                                        continue
                                    for k2, s2 in enumerate(b2):
                                        if any(x is y for y in ast.walk(s2)):
                                            prev = [p_ for p_ in b2[:k2] if isinstance(p_, ast.If) and
                                                    any(isinstance(z, ast.Name) and z.id == x.id and isinstance(z.ctx, ast.Store)
                                                        for z in ast.walk(p_))]
                                            if prev:
                                                return True
                            return False
                        others = [x for x in ast.walk(fn) if isinstance(x, ast.Name) and x.id in names and isinstance(x.ctx, ast.Load)
                                  and id(x) not in tail_ids]
                        if any(not served(x) for x in others):
                            continue
                        for b in falls:
                            counter[0] += 1
                            m = {nm: f'{nm}__b{counter[0]}' for nm in names}
                            b[:] = [_Rename(m).visit(st) for st in b]
                            b.extend(_shift_cols(_Rename(m).visit(copy.deepcopy(t)), 1000 * counter[0]) for t in tail)
                        del blk[k + 1:]
                        # `x = E ; return x` at the end of a branch is `return E`
                        for b in falls:
                            if len(b) >= 2 and isinstance(b[-1], ast.Return) and isinstance(b[-1].value, ast.Name) and \
                                    isinstance(b[-2], ast.Assign) and len(b[-2].targets) == 1 and \
                                    isinstance(b[-2].targets[0], ast.Name) and b[-2].targets[0].id == b[-1].value.id and \
                                    sum(1 for x in ast.walk(fn) if isinstance(x, ast.Name) and x.id == b[-1].value.id) == 2:
                                b[-1].value = b[-2].value
                                del b[-2]
                        changed = True
                        break
                    if changed:
                        break
                if changed:
                    break
        ast.fix_missing_locations(fn)
        return fn
    return run


def elif_to_ifs(fnode):
    """`if a: ..return/raise  elif b: ..return/raise  else: R`  ->  `if a: ..  if b: ..  R`   (every tested branch leaves)"""
    fn = copy.deepcopy(fnode)
    changed = True
    while changed:
        changed = False
        for n in list(ast.walk(fn)):
            for f in ('body', 'orelse', 'finalbody'):
                blk = getattr(n, f, None)
                if not (isinstance(blk, list) and blk and isinstance(blk[0], ast.stmt)):
                    continue
                for k, s in enumerate(blk):
                    if isinstance(s, ast.If) and s.orelse and _terminates(s.body) and \
                            isinstance(s.body[-1], (ast.Return, ast.Raise)):
                        rest = s.orelse
                        s.orelse = []
                        blk[k + 1:k + 1] = rest
                        changed = True
                        break
                if changed:
                    break
            if changed:
                break
    ast.fix_missing_locations(fn)
    return fn


def split_redefinitions(known):
    """pass factory: a new local that is bound several times, each time by a plain assignment in some block and read only in
    the rest of that block up to its next binding there (a scratch name reused section after section), is renamed apart
    - one name per binding - so that each can be treated as the single-assignment temporary it is."""
    known = set(known)
    counter = [0]

    def run(fnode):
        fn = copy.deepcopy(fnode)
        stores = _store_counts(fn)
        cands = {n for n, c in stores.items() if c > 1 and n not in known and n != '_'}
        for name in sorted(cands):
            regions = []        # (block, index of def, end index)
            ok = True
            all_nodes = [x for x in ast.walk(fn) if isinstance(x, ast.Name) and x.id == name]
            covered = set()
            for n in ast.walk(fn):
                for f in ('body', 'orelse', 'finalbody'):
                    blk = getattr(n, f, None)
                    if not (isinstance(blk, list) and blk and isinstance(blk[0], ast.stmt)):
                        continue
                    idx = [k for k, st in enumerate(blk) if isinstance(st, ast.Assign) and len(st.targets) == 1 and
                           isinstance(st.targets[0], ast.Name) and st.targets[0].id == name]
                    for a, k in enumerate(idx):
                        end = idx[a + 1] if a + 1 < len(idx) else len(blk)
                        # the definition itself must not read the name; the region must not rebind it otherwise
                        if any(isinstance(x, ast.Name) and x.id == name for x in ast.walk(blk[k].value)):
                            ok = False
                        for st in blk[k + 1:end]:
                            if any(isinstance(x, ast.Name) and x.id == name and isinstance(x.ctx, ast.Store) for x in ast.walk(st)):
                                ok = False
                        regions.append((blk, k, end))
                        covered.add(id(blk[k].targets[0]))
                        for st in blk[k + 1:end]:
                            covered |= {id(x) for x in ast.walk(st) if isinstance(x, ast.Name) and x.id == name}
            if not ok or len(regions) < 2 or any(id(x) not in covered for x in all_nodes):
                continue
            for blk, k, end in regions:
                counter[0] += 1
                m = {name: f'{name}__r{counter[0]}'}
                blk[k].targets[0] = ast.copy_location(ast.Name(id=m[name], ctx=ast.Store()), blk[k].targets[0])
                for j in range(k + 1, end):
                    blk[j] = _Rename(m).visit(blk[j])
        ast.fix_missing_locations(fn)
        return fn
    return run


def offset_ids_to_counter(fnode):
    """for K, X in enumerate(S): c = c0 + K ; BODY(c)        [afterwards: c0 + len(S)]
         ->   c = c0 ; for K, X in enumerate(S): BODY(c) ; c += 1        [afterwards: c]
    (ids taken as first-free + position become the running counter the id rules know; the loop has no break / continue,
    c is bound nowhere else, c0 is not rebound)"""
    fn = copy.deepcopy(fnode)
    stores = _store_counts(fn)
    for blk in [getattr(n, f) for n in ast.walk(fn) for f in ('body', 'orelse', 'finalbody')
                if isinstance(getattr(n, f, None), list) and getattr(n, f) and isinstance(getattr(n, f)[0], ast.stmt)]:
        for li, lp in enumerate(list(blk)):
            if not (isinstance(lp, ast.For) and isinstance(lp.iter, ast.Call) and norm(lp.iter.func) == 'enumerate' and
                    len(lp.iter.args) == 1 and isinstance(lp.target, ast.Tuple) and isinstance(lp.target.elts[0], ast.Name)):
                continue
            if any(isinstance(x, (ast.Break, ast.Continue)) for x in ast.walk(lp)):
                continue
            K, S = lp.target.elts[0].id, lp.iter.args[0]
            cands = []
            for st in lp.body:
                if isinstance(st, ast.Assign) and len(st.targets) == 1 and isinstance(st.targets[0], ast.Name) and \
                        isinstance(st.value, ast.BinOp) and isinstance(st.value.op, ast.Add) and \
                        isinstance(st.value.left, ast.Name) and isinstance(st.value.right, ast.Name) and \
                        K in (st.value.left.id, st.value.right.id):
                    c = st.targets[0].id
                    c0 = st.value.left.id if st.value.right.id == K else st.value.right.id
                    if stores.get(c) == 1 and stores.get(c0) == 1 and c0 != K:
                        cands.append((st, c, c0))
            if not cands:
                continue
            pos = blk.index(lp)
            for st, c, c0 in cands:
                # c must not be read before its definition in the body
                k = lp.body.index(st)
                if any(isinstance(x, ast.Name) and x.id == c for b in lp.body[:k] for x in ast.walk(b)):
                    continue
                lp.body.remove(st)
                lp.body.append(ast.copy_location(ast.AugAssign(target=ast.Name(id=c, ctx=ast.Store()), op=ast.Add(),
                                                               value=ast.Constant(value=1)), st))
                blk.insert(pos, ast.copy_location(ast.Assign(targets=[ast.Name(id=c, ctx=ast.Store())],
                                                             value=ast.Name(id=c0, ctx=ast.Load())), lp))
                pos += 1
                want = {f'{c0} + len({norm(S)})', f'len({norm(S)}) + {c0}'}

                class R(ast.NodeTransformer):
                    def visit_BinOp(self, node):
                        self.generic_visit(node)
                        if norm(node) in want:
                            return ast.copy_location(ast.Name(id=c, ctx=ast.Load()), node)
                        return node
                for j in range(blk.index(lp) + 1, len(blk)):
                    blk[j] = R().visit(blk[j])
                # c0 now only feeds `c = c0`: its definition becomes the definition of c
                left = [x for x in ast.walk(fn) if isinstance(x, ast.Name) and x.id == c0 and isinstance(x.ctx, ast.Load)]
                d0 = [x for x in blk[:blk.index(lp)] if isinstance(x, ast.Assign) and len(x.targets) == 1 and norm(x.targets[0]) == c0]
                cp = [x for x in blk[:blk.index(lp)] if isinstance(x, ast.Assign) and len(x.targets) == 1 and norm(x.targets[0]) == c
                      and norm(x.value) == c0]
                if len(left) == 1 and len(d0) == 1 and len(cp) == 1 and \
                        not any(isinstance(n_, ast.Name) and n_.id == c for x in blk[blk.index(d0[0]):blk.index(cp[0])] for n_ in ast.walk(x)):
                    d0[0].targets[0] = ast.copy_location(ast.Name(id=c, ctx=ast.Store()), d0[0].targets[0])
                    blk.remove(cp[0])
                    pos -= 1
    ast.fix_missing_locations(fn)
    return fn


def block_alloc_to_counter(fnode):
    """T = {k: C(c + n, ..) for n, k in enumerate(S)} ; c += len(S)      (a block of consecutive ids taken at once)
         ->   T = {} ; for k in S: T[k] = C(c, ..) ; c += 1              (one id per element: the counter idiom)
    n occurs only as `c + n`; nothing between the two statements mentions c; S is the same expression in both."""
    fn = copy.deepcopy(fnode)
    for blk in [getattr(n, f) for n in ast.walk(fn) for f in ('body', 'orelse', 'finalbody')
                if isinstance(getattr(n, f, None), list) and getattr(n, f) and isinstance(getattr(n, f)[0], ast.stmt)]:
        i = 0
        while i < len(blk):
            s = blk[i]
            comp = s.value if isinstance(s, ast.Assign) and len(s.targets) == 1 and isinstance(s.value, ast.DictComp) else None
            if comp is None or len(comp.generators) != 1 or comp.generators[0].ifs:
                i += 1
                continue
            g = comp.generators[0]
            if not (isinstance(g.iter, ast.Call) and norm(g.iter.func) == 'enumerate' and len(g.iter.args) == 1 and
                    isinstance(g.target, ast.Tuple) and len(g.target.elts) == 2 and isinstance(g.target.elts[0], ast.Name)):
                i += 1
                continue
            nvar, kexpr, S = g.target.elts[0].id, g.target.elts[1], g.iter.args[0]
            if norm(comp.key) != norm(kexpr):
                i += 1
                continue
            # uses of n: only inside `c + n` / `n + c` with one counter name c
            occ = [x for x in ast.walk(comp.value) if isinstance(x, ast.Name) and x.id == nvar]
            sums = [b for b in ast.walk(comp.value) if isinstance(b, ast.BinOp) and isinstance(b.op, ast.Add) and
                    ((isinstance(b.left, ast.Name) and isinstance(b.right, ast.Name) and nvar in (b.left.id, b.right.id)))]
            if not occ or len(occ) != len(sums):
                i += 1
                continue
            cs = {(b.left.id if b.right.id == nvar else b.right.id) for b in sums}
            if len(cs) != 1:
                i += 1
                continue
            c = next(iter(cs))
            # the matching `c += len(S)` later in the block, nothing in between mentioning c
            j = None
            for k in range(i + 1, len(blk)):
                t = blk[k]
                if isinstance(t, ast.AugAssign) and isinstance(t.op, ast.Add) and norm(t.target) == c and \
                        norm(t.value) == f'len({norm(S)})':
                    j = k
                    break
                if any(isinstance(x, ast.Name) and x.id == c for x in ast.walk(t)):
                    break
            if j is None:
                i += 1
                continue

            class R(ast.NodeTransformer):
                def visit_BinOp(self, node):
                    self.generic_visit(node)
                    if node in sums or (isinstance(node.op, ast.Add) and isinstance(node.left, ast.Name) and
                                        isinstance(node.right, ast.Name) and {node.left.id, node.right.id} == {c, nvar}):
                        return ast.copy_location(ast.Name(id=c, ctx=ast.Load()), node)
                    return node
            val = R().visit(copy.deepcopy(comp.value))
            tgt = s.targets[0]
            init = ast.copy_location(ast.Assign(targets=[tgt], value=ast.Dict(keys=[], values=[])), s)
            store = ast.Assign(targets=[ast.Subscript(value=copy.deepcopy(tgt), slice=copy.deepcopy(kexpr), ctx=ast.Store())], value=val)
            for x in ast.walk(store.targets[0].value):
                if hasattr(x, 'ctx'):
                    x.ctx = ast.Load()
            inc = ast.AugAssign(target=ast.Name(id=c, ctx=ast.Store()), op=ast.Add(), value=ast.Constant(value=1))
            ktarget = copy.deepcopy(kexpr)
            for x in ast.walk(ktarget):
                if hasattr(x, 'ctx'):
                    x.ctx = ast.Store()
            loop = ast.copy_location(ast.For(target=ktarget, iter=copy.deepcopy(S), body=[store, inc], orelse=[]), s)
            del blk[j]
            blk[i:i + 1] = [init, loop]
            i += 2
    ast.fix_missing_locations(fn)
    return fn


def zip_collected_lists(fnode):
    """X = [f(v) for v in Q] ; Y = [g(v) for v in Q] ; ... ; for v, x, y in zip(Q, X, Y): BODY     (X, Y used nowhere else)
         ->   for v in Q: x = f(v) ; y = g(v) ; BODY
    The names f / g read are not stored in BODY nor between the definitions and the loop."""
    fn = copy.deepcopy(fnode)
    for blk in [getattr(n, f) for n in ast.walk(fn) for f in ('body', 'orelse', 'finalbody')
                if isinstance(getattr(n, f, None), list) and getattr(n, f) and isinstance(getattr(n, f)[0], ast.stmt)]:
        for li, lp in enumerate(list(blk)):
            if not (isinstance(lp, ast.For) and isinstance(lp.iter, ast.Call) and norm(lp.iter.func) == 'zip' and
                    isinstance(lp.target, ast.Tuple) and len(lp.target.elts) == len(lp.iter.args) >= 2 and
                    all(isinstance(a, ast.Name) for a in lp.iter.args[1:])):
                continue
            Q = lp.iter.args[0]
            defs = []
            ok = True
            for a in lp.iter.args[1:]:
                d = [st for st in blk[:blk.index(lp)] if isinstance(st, ast.Assign) and len(st.targets) == 1 and
                     norm(st.targets[0]) == a.id]
                uses = [x for x in ast.walk(fn) if isinstance(x, ast.Name) and x.id == a.id]
                if len(d) != 1 or len(uses) != 2 or not isinstance(d[0].value, ast.ListComp) or \
                        len(d[0].value.generators) != 1 or d[0].value.generators[0].ifs or \
                        norm(d[0].value.generators[0].iter) != norm(Q) or not isinstance(d[0].value.generators[0].target, ast.Name):
                    ok = False
                    break
                defs.append(d[0])
            if not ok or not isinstance(lp.target.elts[0], ast.Name):
                continue
            v = lp.target.elts[0].id
            first = min(blk.index(d) for d in defs)
            between = blk[first:blk.index(lp)]
            reads = {x.id for d in defs for x in ast.walk(d.value.elt) if isinstance(x, ast.Name)} | \
                {x.id for x in ast.walk(Q) if isinstance(x, ast.Name)}
            stored = {x.id for st in between + lp.body for x in ast.walk(st) if isinstance(x, ast.Name) and isinstance(x.ctx, ast.Store)
                      and not any(st is d for d in defs)}
            if (reads - {d.value.generators[0].target.id for d in defs}) & stored:
                continue
            pre = []
            for d, t in zip(defs, lp.target.elts[1:]):
                gv = d.value.generators[0].target.id
                e = _Rename({gv: v}).visit(copy.deepcopy(d.value.elt))
                pre.append(ast.copy_location(ast.Assign(targets=[copy.deepcopy(t)], value=e), d))
            lp.target = lp.target.elts[0]
            lp.iter = Q
            lp.body = pre + lp.body
            for d in defs:
                blk.remove(d)
    ast.fix_missing_locations(fn)
    return fn


def normalise_function(fnode, known_locals, known_spellings=()):
    keep = frozenset(known_spellings)
    fn = negative_indices(fnode)
    if any(isinstance(x, ast.Name) and isinstance(x.ctx, ast.Store) and x.id not in known_locals for x in ast.walk(fn)):
        before = ast.dump(fn)
        fn = sink_common_tail(known_locals, keep)(fn)
        if ast.dump(fn) != before:
            fn = elif_to_ifs(fn)
    if any(isinstance(x, ast.Name) and x.id not in known_locals for x in ast.walk(fn)):
        fn = fold_literal_residue(fn)
    if any(isinstance(x, ast.Call) and norm(x.func) in ('itertools.count', 'count') for x in ast.walk(fn)):
        fn = itercount_to_counter(fn)
    fn = guards_to_else(fn)
    fn = reduce_to_loop(fn)
    fn = update_dictcomp_to_loop(fn)
    fn = fuse_collect_loops(fn)
    if any(isinstance(x, ast.For) and isinstance(x.iter, ast.Call) and norm(x.iter.func) == 'zip' and shape_key(x) not in keep
           for x in ast.walk(fn)):
        fn = fuse_collect_zip_loops(fn)
    fn = split_tuple_assigns(fn, keep)
    fn = coalesce_copies(fn)
    fn = aug_from_binop(fn, keep)
    fn = index_loops(fn, keep)
    fn = forward_site_stores(known_locals)(fn)
    if any(isinstance(x, ast.Name) and isinstance(x.ctx, ast.Store) and x.id not in known_locals for x in ast.walk(fn)):
        fn = split_redefinitions(known_locals)(fn)
    fn = inline_unknown_temps(known_locals, keep)(fn)
    if any(isinstance(x, ast.For) and isinstance(x.iter, ast.Call) and norm(x.iter.func) == 'enumerate' and shape_key(x) not in keep
           for x in ast.walk(fn)):
        fn = offset_ids_to_counter(fn)
    if any(isinstance(x, ast.DictComp) for x in ast.walk(fn)):
        before = ast.dump(fn)
        fn = block_alloc_to_counter(fn)
        if ast.dump(fn) != before:
            fn = inline_unknown_temps(known_locals, keep)(fn)
    if any(isinstance(x, ast.For) and isinstance(x.iter, ast.Call) and norm(x.iter.func) == 'zip' and shape_key(x) not in keep
           for x in ast.walk(fn)):
        fn = zip_collected_lists(fn)
    if any(isinstance(x, ast.Name) and x.id not in known_locals for x in ast.walk(fn)):
        # a constant dummy neighbour held in a new local goes back to its argument positions (the helpers it is handed to
        # never write their arguments: C19.PURE, checked on the same tree)
        fn = const_array_args(fn)
    fn = negative_indices(fn)
    return fn


class _Abstract(ast.NodeTransformer):
    def visit_Name(self, node):
        return ast.copy_location(ast.Name(id='_', ctx=ast.Load()), node)


def shape_key(node):
    """text of a loop header / assignment with every local name replaced by `_` (attribute and function names that are
    written as attributes stay; a bare function name becomes `_` too)"""
    if isinstance(node, ast.For):
        t = _Abstract().visit(copy.deepcopy(node.target))
        i = _Abstract().visit(copy.deepcopy(node.iter))
        return 'for ' + ' '.join(ast.unparse(t).split()) + ' in ' + ' '.join(ast.unparse(i).split())
    n = _Abstract().visit(copy.deepcopy(node))
    return ' '.join(ast.unparse(n).split())


def _mutated_through(fn, name):
    """is the object bound to `name` stored into / mutated through that name anywhere (name[..] = .., name.x = ..,
    name.append(..), name += ..)?  Such a name is a variable in its own right, not a temporary"""
    for x in ast.walk(fn):
        if isinstance(x, (ast.Subscript, ast.Attribute)) and isinstance(x.ctx, (ast.Store, ast.Del)):
            b = x
            while isinstance(b, (ast.Subscript, ast.Attribute)):
                b = b.value
            if isinstance(b, ast.Name) and b.id == name:
                return True
        if isinstance(x, ast.AugAssign):
            b = x.target
            while isinstance(b, (ast.Subscript, ast.Attribute)):
                b = b.value
            if isinstance(b, ast.Name) and b.id == name:
                return True
        if isinstance(x, ast.Call) and isinstance(x.func, ast.Attribute) and \
                x.func.attr in ('append', 'extend', 'insert', 'pop', 'remove', 'sort', 'reverse', 'update', 'clear', 'add',
                                'fill', 'setdefault', 'eliminate_zeros'):
            b = x.func.value
            while isinstance(b, (ast.Subscript, ast.Attribute)):
                b = b.value
            if isinstance(b, ast.Name) and b.id == name:
                return True
    return False


def reduce_to_loop(fnode):
    """X = reduce(lambda a, x: E, S, I)  /  return reduce(...)   ->   a = I ; for x in S: a = E ; X = a  /  return a"""
    fn = copy.deepcopy(fnode)
    used = {n.id for n in ast.walk(fn) if isinstance(n, ast.Name)}
    cnt = [0]
    for n in list(ast.walk(fn)):
        for f in ('body', 'orelse', 'finalbody'):
            blk = getattr(n, f, None)
            if not (isinstance(blk, list) and blk and isinstance(blk[0], ast.stmt)):
                continue
            i = 0
            while i < len(blk):
                s_ = blk[i]
                v = s_.value if isinstance(s_, (ast.Assign, ast.Return)) else None
                if isinstance(v, ast.Call) and norm(v.func) in ('reduce', 'functools.reduce') and len(v.args) == 3 and \
                        isinstance(v.args[0], ast.Name) and not v.keywords and v.args[0].id not in \
                        {m.id for m in ast.walk(fn) if isinstance(m, ast.Name) and isinstance(m.ctx, ast.Store)}:
                    # a named two-argument function: reduce(f, S, I) is reduce(lambda a, x: f(a, x), S, I)
                    f_ = v.args[0]
                    v.args[0] = ast.copy_location(ast.Lambda(
                        args=ast.arguments(posonlyargs=[], args=[ast.arg(arg='acc__'), ast.arg(arg='item__')], kwonlyargs=[],
                                           kw_defaults=[], defaults=[]),
                        body=ast.Call(func=f_, args=[ast.Name(id='acc__', ctx=ast.Load()), ast.Name(id='item__', ctx=ast.Load())],
                                      keywords=[])), f_)
                    ast.fix_missing_locations(v.args[0])
                if isinstance(v, ast.Call) and norm(v.func) in ('reduce', 'functools.reduce') and len(v.args) == 3 and \
                        isinstance(v.args[0], ast.Lambda) and len(v.args[0].args.args) == 2 and not v.keywords:
                    lam, seq, init = v.args
                    a, x = (p.arg for p in lam.args.args)
                    ren = {}
                    for nm in (a, x):
                        if nm in used - {a, x} or any(isinstance(m, ast.Name) and m.id == nm for m in ast.walk(seq)):
                            cnt[0] += 1
                            ren[nm] = f'{nm}__r{cnt[0]}'
                    body = copy.deepcopy(lam.body)
                    for old_, new_ in ren.items():
                        body = _SubstName(old_, ast.Name(id=new_, ctx=ast.Load())).visit(body)
                    a2, x2 = ren.get(a, a), ren.get(x, x)
                    pre = [ast.Assign(targets=[ast.Name(id=a2, ctx=ast.Store())], value=init),
                           ast.For(target=ast.Name(id=x2, ctx=ast.Store()), iter=seq,
                                   body=[ast.Assign(targets=[ast.Name(id=a2, ctx=ast.Store())], value=body)], orelse=[])]
                    if isinstance(s_, ast.Return):
                        last = ast.Return(value=ast.Name(id=a2, ctx=ast.Load()))
                    else:
                        last = ast.Assign(targets=s_.targets, value=ast.Name(id=a2, ctx=ast.Load()))
                    new = pre + [last]
                    for o in new:
                        ast.copy_location(o, s_)
                    blk[i:i + 1] = new
                    i += len(new)
                    continue
                i += 1
    ast.fix_missing_locations(fn)
    return fn


def itercount_to_counter(fnode):
    """c = itertools.count([k]) ... f(next(c), ..)        ->      c = k ... f(c, ..) ; c += 1
    for a counter object that is used for nothing but `next(c)`, each `next(c)` being the only one of a simple statement
    (a dict comprehension that draws an id per element is unrolled into its loop first; its key must not draw)."""
    fn = copy.deepcopy(fnode)
    cands = {}
    for n in ast.walk(fn):
        if isinstance(n, ast.Assign) and len(n.targets) == 1 and isinstance(n.targets[0], ast.Name) and \
                isinstance(n.value, ast.Call) and norm(n.value.func) in ('itertools.count', 'count') and \
                len(n.value.args) <= 1 and not n.value.keywords:
            cands.setdefault(n.targets[0].id, []).append(n)
    if not cands:
        return fn
    parents = {}
    for n in ast.walk(fn):
        for c in ast.iter_child_nodes(n):
            parents[id(c)] = n
    for name, defs in list(cands.items()):
        refs = [n for n in ast.walk(fn) if isinstance(n, ast.Name) and n.id == name]
        good = len(defs) == 1
        for r in refs:
            if isinstance(r.ctx, ast.Store):
                good = good and parents.get(id(r)) is defs[0]
            else:
                c = parents.get(id(r))
                good = good and isinstance(c, ast.Call) and norm(c.func) == 'next' and len(c.args) == 1 and c.args[0] is r \
                    and not c.keywords
        if not good:
            del cands[name]
    if not cands:
        return fn

    def draws(node, name):
        return [c for c in ast.walk(node) if isinstance(c, ast.Call) and norm(c.func) == 'next' and len(c.args) == 1 and
                isinstance(c.args[0], ast.Name) and c.args[0].id == name]
    # dict comprehensions drawing ids: unrolled (the value draws, the key does not)
    for name in cands:
        for n in ast.walk(fn):
            if isinstance(n, ast.Assign) and isinstance(n.value, ast.DictComp) and draws(n.value, name):
                if draws(n.value.key, name) or len(n.value.generators) != 1 or \
                        any(draws(x, name) for g in n.value.generators for x in [g.iter] + g.ifs):
                    return copy.deepcopy(fnode)
    if any(isinstance(n, ast.Assign) and isinstance(n.value, ast.DictComp) and any(draws(n.value, nm) for nm in cands)
           for n in ast.walk(fn)):
        fn = dictcomp_to_loops(fn)
        # (dictcomp_to_loops stores `T[k] = v`: v is evaluated before k, k does not draw)
    plan = []
    for name in cands:
        for n in ast.walk(fn):
            for f in ('body', 'orelse', 'finalbody'):
                blk = getattr(n, f, None)
                if not (isinstance(blk, list) and blk and isinstance(blk[0], ast.stmt)):
                    continue
                for s_ in blk:
                    if isinstance(s_, (ast.Expr, ast.Assign, ast.AugAssign, ast.Return)):
                        d = draws(s_, name)
                        if len(d) > 1 or (d and isinstance(s_, ast.Return)) or \
                                any(isinstance(x, (ast.Lambda, ast.ListComp, ast.DictComp, ast.SetComp, ast.GeneratorExp, ast.IfExp,
                                                   ast.BoolOp)) and draws(x, name) for x in ast.walk(s_)):
                            return copy.deepcopy(fnode)
                        if d:
                            plan.append((blk, s_, d[0], name))
                    else:
                        heads = [getattr(s_, h, None) for h in ('test', 'iter', 'target')] + \
                            [w.context_expr for w in getattr(s_, 'items', [])]
                        if any(h is not None and draws(h, name) for h in heads):
                            return copy.deepcopy(fnode)

    class R(ast.NodeTransformer):
        def __init__(self, call, name):
            self.call, self.name = call, name

        def visit_Call(self, node):
            if node is self.call:
                return ast.copy_location(ast.Name(id=self.name, ctx=ast.Load()), node)
            self.generic_visit(node)
            return node
    for blk, s_, call, name in plan:
        k = next(i for i, x in enumerate(blk) if x is s_)
        new = R(call, name).visit(s_)
        inc = ast.copy_location(ast.AugAssign(target=ast.Name(id=name, ctx=ast.Store()), op=ast.Add(), value=ast.Constant(value=1)), s_)
        blk[k:k + 1] = [new, inc]
    for name in cands:
        for d in ast.walk(fn):
            if isinstance(d, ast.Assign) and len(d.targets) == 1 and isinstance(d.targets[0], ast.Name) and \
                    d.targets[0].id == name and isinstance(d.value, ast.Call) and norm(d.value.func) in ('itertools.count', 'count'):
                d.value = d.value.args[0] if d.value.args else ast.copy_location(ast.Constant(value=0), d.value)
    ast.fix_missing_locations(fn)
    return fn


def _num_const(e):
    if isinstance(e, ast.Constant) and isinstance(e.value, (int, float)) and not isinstance(e.value, bool):
        return e.value
    if isinstance(e, ast.UnaryOp) and isinstance(e.op, ast.USub) and isinstance(e.operand, ast.Constant) and \
            isinstance(e.operand.value, (int, float)) and not isinstance(e.operand.value, bool):
        return -e.operand.value
    return None


class _Fold(ast.NodeTransformer):
    """what is left behind when a literal is substituted for a formal parameter: `a if 1 > 0 else b` -> a,
    `x + -1` -> `x - 1` (exact for every type that defines subtraction as adding the negative: ints, floats, arrays)"""

    def _test(self, t):
        if isinstance(t, ast.Compare) and len(t.ops) == 1:
            a, b = _num_const(t.left), _num_const(t.comparators[0])
            if a is not None and b is not None:
                op = t.ops[0]
                for cls, f in ((ast.Gt, a > b), (ast.GtE, a >= b), (ast.Lt, a < b), (ast.LtE, a <= b), (ast.Eq, a == b),
                               (ast.NotEq, a != b)):
                    if isinstance(op, cls):
                        return f
        return None

    def visit_IfExp(self, node):
        self.generic_visit(node)
        d = self._test(node.test)
        if d is not None:
            return node.body if d else node.orelse
        return node

    def visit_If(self, node):
        self.generic_visit(node)
        d = self._test(node.test)
        if d is not None:
            return (node.body if d else node.orelse) or [ast.copy_location(ast.Pass(), node)]
        return node

    def visit_BinOp(self, node):
        self.generic_visit(node)
        if isinstance(node.op, ast.Add) and isinstance(node.right, ast.UnaryOp) and isinstance(node.right.op, ast.USub) and \
                isinstance(node.right.operand, ast.Constant) and isinstance(node.right.operand.value, int) and \
                not isinstance(node.right.operand.value, bool):
            return ast.copy_location(ast.BinOp(left=node.left, op=ast.Sub(), right=node.right.operand), node)
        return node


def fold_literal_residue(fnode):
    """constant tests and `+ -c` left behind by inlining a call with literal arguments; a range / reversed(range) held in a
    local that is only the iterable of the loop that follows goes back into the loop header"""
    fn = copy.deepcopy(fnode)
    fn = _Fold().visit(fn)
    counts = {}
    for n in ast.walk(fn):
        if isinstance(n, ast.Name):
            counts[n.id] = counts.get(n.id, 0) + 1
    for n in list(ast.walk(fn)):
        for f in ('body', 'orelse', 'finalbody'):
            blk = getattr(n, f, None)
            if not (isinstance(blk, list) and blk and isinstance(blk[0], ast.stmt)):
                continue
            i = 0
            while i + 1 < len(blk):
                a, b = blk[i], blk[i + 1]
                if isinstance(a, ast.Assign) and len(a.targets) == 1 and isinstance(a.targets[0], ast.Name) and \
                        counts.get(a.targets[0].id) == 2 and isinstance(b, ast.For) and isinstance(b.iter, ast.Name) and \
                        b.iter.id == a.targets[0].id and isinstance(a.value, ast.Call) and \
                        norm(a.value.func) in ('range', 'reversed') and \
                        (norm(a.value.func) == 'range' or (len(a.value.args) == 1 and isinstance(a.value.args[0], ast.Call) and
                                                           norm(a.value.args[0].func) == 'range')):
                    b.iter = a.value
                    del blk[i]
                    continue
                i += 1
    ast.fix_missing_locations(fn)
    return fn


def guards_to_else(fnode):
    """... if c: A ; return R         ->     ... if c: A
       REST ; return R                           else: REST
                                                 return R
    at the top level of a function whose last statement is `return R` (R a plain name): the two forms run the same statements
    in the same order on every path.  The rules that compare the arms of a case distinction then see the arms."""
    fn = copy.deepcopy(fnode)
    body = fn.body
    if not (len(body) >= 3 and isinstance(body[-1], ast.Return) and isinstance(body[-1].value, ast.Name)):
        return fn
    R = body[-1].value.id

    def conv(stmts):
        for i, s_ in enumerate(stmts):
            if isinstance(s_, ast.If) and not s_.orelse and s_.body and isinstance(s_.body[-1], ast.Return) and \
                    isinstance(s_.body[-1].value, ast.Name) and s_.body[-1].value.id == R and \
                    not any(isinstance(x, ast.Return) for b in s_.body[:-1] for x in ast.walk(b)):
                rest = conv(stmts[i + 1:])
                if not rest:
                    return stmts
                new = ast.copy_location(ast.If(test=s_.test, body=s_.body[:-1] or [ast.copy_location(ast.Pass(), s_)],
                                               orelse=rest), s_)
                return stmts[:i] + [new]
        return stmts
    new_body = conv(body[:-1])
    if len(new_body) != len(body) - 1:
        fn.body = new_body + [body[-1]]
    ast.fix_missing_locations(fn)
    return fn


def result_var_to_returns(fnode):
    """... if c: A; R = x  else: B; R = y ; return R      ->      if c: A; return x  else: B; return y
    (R a plain local that is only assigned as the last statement of the arms of the conditional right before the
    final return)"""
    fn = copy.deepcopy(fnode)
    body = fn.body
    if len(body) < 2 or not (isinstance(body[-1], ast.Return) and isinstance(body[-1].value, ast.Name)):
        return fn
    R = body[-1].value.id
    prev = body[-2]

    def push(stmts):
        """stmts ends by assigning R (possibly inside a trailing if/else): turn those assignments into returns"""
        if not stmts:
            return False
        last = stmts[-1]
        if isinstance(last, ast.Assign) and len(last.targets) == 1 and isinstance(last.targets[0], ast.Name) and \
                last.targets[0].id == R:
            stmts[-1] = ast.copy_location(ast.Return(value=last.value), last)
            return True
        if isinstance(last, ast.If) and last.orelse:
            a = push(last.body)
            b = push(last.orelse)
            return a and b
        return False
    uses = sum(1 for n in ast.walk(fn) if isinstance(n, ast.Name) and n.id == R)
    trial = copy.deepcopy(prev)
    if isinstance(trial, ast.If) and trial.orelse and push(trial.body) and push(trial.orelse):
        assigned = sum(1 for n in ast.walk(prev) if isinstance(n, ast.Name) and n.id == R and isinstance(n.ctx, ast.Store))
        reads = sum(1 for n in ast.walk(prev) if isinstance(n, ast.Name) and n.id == R and isinstance(n.ctx, ast.Load))
        if reads == 0 and uses == assigned + 1:
            fn.body = body[:-2] + [trial]
    ast.fix_missing_locations(fn)
    return fn


def continue_to_nested_if(fnode):
    """inside a loop body:   if c: continue ; REST    ->    if not c: REST      (the `if` has no else and only `continue`)"""
    fn = copy.deepcopy(fnode)
    changed = True
    while changed:
        changed = False
        for loop in [n for n in ast.walk(fn) if isinstance(n, (ast.For, ast.While))]:
            for blk in [loop.body] + [x.body for x in ast.walk(loop) if isinstance(x, ast.If) and x is not loop] + \
                    [x.orelse for x in ast.walk(loop) if isinstance(x, ast.If)]:
                for i, s_ in enumerate(blk):
                    if isinstance(s_, ast.If) and not s_.orelse and len(s_.body) == 1 and isinstance(s_.body[0], ast.Continue) \
                            and blk is loop.body and blk[i + 1:]:
                        neg = s_.test.operand if isinstance(s_.test, ast.UnaryOp) and isinstance(s_.test.op, ast.Not) else \
                            ast.UnaryOp(op=ast.Not(), operand=s_.test)
                        new_if = ast.copy_location(ast.If(test=neg, body=blk[i + 1:], orelse=[]), s_)
                        del blk[i:]
                        blk.append(new_if)
                        changed = True
                        break
                if changed:
                    break
            if changed:
                break
    ast.fix_missing_locations(fn)
    return fn


def update_dictcomp_to_loop(fnode):
    """X.update({k: v for t in R [if c]})   ->   for t in R: [if c:] X[k] = v      (also X.update((k, v) for t in R))"""
    fn = copy.deepcopy(fnode)
    binds = {}
    for n in ast.walk(fn):
        if isinstance(n, ast.Name) and isinstance(n.ctx, ast.Store):
            binds.setdefault(n.id, []).append(None)
        if isinstance(n, ast.Assign) and len(n.targets) == 1 and isinstance(n.targets[0], ast.Name):
            v_ = n.value
            binds.setdefault(n.targets[0].id, []).append(
                isinstance(v_, (ast.Dict, ast.DictComp)) or (isinstance(v_, ast.Call) and norm(v_.func) == 'dict'))
    # every Store of the name is one of the recorded assignments and each of those binds a dict
    dict_names = {k for k, v in binds.items() if v.count(None) == len(v) - v.count(None) and all(x for x in v if x is not None)
                  and any(x for x in v)}
    dict_names -= {a.arg for a in ast.walk(fn) if isinstance(a, ast.arg)}
    for n in list(ast.walk(fn)):
        for f in ('body', 'orelse', 'finalbody'):
            blk = getattr(n, f, None)
            if not (isinstance(blk, list) and blk and isinstance(blk[0], ast.stmt)):
                continue
            for i, s_ in enumerate(blk):
                if isinstance(s_, ast.Expr) and isinstance(s_.value, ast.Call) and isinstance(s_.value.func, ast.Attribute) and \
                        s_.value.func.attr == 'update' and len(s_.value.args) == 1 and not s_.value.keywords and \
                        isinstance(s_.value.args[0], (ast.DictComp, ast.GeneratorExp, ast.ListComp)) and \
                        len(s_.value.args[0].generators) == 1 and \
                        (isinstance(s_.value.args[0], ast.DictComp) or
                         (isinstance(s_.value.args[0].elt, ast.Tuple) and len(s_.value.args[0].elt.elts) == 2 and
                          isinstance(s_.value.func.value, ast.Name) and s_.value.func.value.id in dict_names)):
                    # (an iterable of (key, value) pairs updates a dict in iteration order like a dict display does; the
                    # receiver is a dict when every binding of the name in the function is a dict display / dict(...))
                    comp = s_.value.args[0]
                    g = comp.generators[0]
                    key_, val_ = (comp.key, comp.value) if isinstance(comp, ast.DictComp) else comp.elt.elts
                    # a dict / list comprehension is built completely BEFORE the update: the loop of stores is the same
                    # only if no element reads the receiver (a generator expression is consumed store by store)
                    recv_names = {x.id for x in ast.walk(s_.value.func.value) if isinstance(x, ast.Name)}
                    if not isinstance(comp, ast.GeneratorExp) and \
                            any(isinstance(x, ast.Name) and x.id in recv_names for e_ in (key_, val_, g.iter, *g.ifs)
                                for x in ast.walk(e_)):
                        continue
                    tgt = ast.Subscript(value=copy.deepcopy(s_.value.func.value), slice=key_, ctx=ast.Store())
                    body = [ast.Assign(targets=[tgt], value=val_)]
                    for c in reversed(g.ifs):
                        body = [ast.If(test=c, body=body, orelse=[])]
                    blk[i] = ast.copy_location(ast.For(target=g.target, iter=g.iter, body=body, orelse=[]), s_)
    ast.fix_missing_locations(fn)
    return fn


def fuse_collect_loops(fnode):
    """X = [] ; for v in S: B1 ; X.append((a, b, ..)) ; ... ; for (p, q, ..) in X: B2
         ->  for v in S: B1 ; p, q, .. = a, b, .. ; B2
    when B1 only assigns plain local names (no stores into objects, no calls with side effects other than the append),
    X is used nowhere else, nothing between the two loops, and B2 assigns none of the names S / B1 read"""
    fn = copy.deepcopy(fnode)
    for n in list(ast.walk(fn)):
        for f in ('body', 'orelse', 'finalbody'):
            blk = getattr(n, f, None)
            if not (isinstance(blk, list) and blk and isinstance(blk[0], ast.stmt)):
                continue
            i = 0
            while i + 2 < len(blk):
                a, l1, l2 = blk[i], blk[i + 1], blk[i + 2]
                if isinstance(a, ast.Assign) and len(a.targets) == 1 and isinstance(a.targets[0], ast.Name) and \
                        isinstance(a.value, ast.List) and not a.value.elts and isinstance(l1, ast.For) and \
                        isinstance(l2, ast.For) and not l1.orelse and not l2.orelse and \
                        isinstance(l2.iter, ast.Name) and l2.iter.id == a.targets[0].id and l1.body:
                    X = a.targets[0].id
                    last = l1.body[-1]
                    uses = sum(1 for x in ast.walk(fn) if isinstance(x, ast.Name) and x.id == X)
                    if isinstance(last, ast.Expr) and isinstance(last.value, ast.Call) and norm(last.value.func) == f'{X}.append' \
                            and len(last.value.args) == 1 and uses == 3:
                        item = last.value.args[0]
                        b1 = l1.body[:-1]
                        pure = all(isinstance(s_, ast.Assign) and all(isinstance(t, (ast.Name, ast.Tuple)) for t in s_.targets)
                                   for s_ in b1)
                        reads1 = {x.id for s_ in b1 + [l1.iter] for x in ast.walk(s_) if isinstance(x, ast.Name)} | \
                            {x.id for x in ast.walk(item) if isinstance(x, ast.Name)}
                        writes2 = {x.id for s_ in l2.body for x in ast.walk(s_) if isinstance(x, ast.Name) and
                                   isinstance(x.ctx, ast.Store)}
                        tnames = {x.id for x in ast.walk(l2.target) if isinstance(x, ast.Name)}
                        if pure and not (writes2 & (reads1 - tnames)):
                            bind = []
                            if norm(l2.target) != norm(item) and norm(l2.target) != f'({norm(item)})':
                                bind = [ast.copy_location(ast.Assign(targets=[l2.target], value=item), l2)]
                            l1.body = b1 + bind + l2.body
                            del blk[i + 2]
                            del blk[i]
                            continue
                i += 1
    ast.fix_missing_locations(fn)
    return fn


def fuse_collect_zip_loops(fnode):
    """X1 = [] ; .. ; Xk = [] ; for v in S: B1 (plain assignments and one `Xj.append(ej)` per list) ;
       for v, t1, .., tk in zip(S, X1, .., Xk): B2
         ->  for v in S: B1 with `tj = ej` in place of the appends ; B2
    when the lists are used nowhere else, S is a plain name, B2 stores none of the names B1 reads (also not through a
    subscript / attribute) and reads none of the names B1 assigns, and the loop variable is the same name in both loops"""
    fn = copy.deepcopy(fnode)
    for n in list(ast.walk(fn)):
        for f in ('body', 'orelse', 'finalbody'):
            blk = getattr(n, f, None)
            if not (isinstance(blk, list) and blk and isinstance(blk[0], ast.stmt)):
                continue
            for i2, l2 in enumerate(list(blk)):
                if not (isinstance(l2, ast.For) and not l2.orelse and isinstance(l2.iter, ast.Call) and norm(l2.iter.func) == 'zip'
                        and not l2.iter.keywords and len(l2.iter.args) >= 2 and all(isinstance(a, ast.Name) for a in l2.iter.args)
                        and isinstance(l2.target, ast.Tuple) and len(l2.target.elts) == len(l2.iter.args)
                        and isinstance(l2.target.elts[0], ast.Name)):
                    continue
                if l2 not in blk:
                    continue
                i2 = blk.index(l2)
                if i2 == 0 or not isinstance(blk[i2 - 1], ast.For):
                    continue
                l1 = blk[i2 - 1]
                S = l2.iter.args[0].id
                Xs = [a.id for a in l2.iter.args[1:]]
                if l1.orelse or not (isinstance(l1.iter, ast.Name) and l1.iter.id == S) or \
                        not (isinstance(l1.target, ast.Name) and l1.target.id == l2.target.elts[0].id) or len(set(Xs)) != len(Xs):
                    continue
                inits = {}
                k = i2 - 2
                while k >= 0 and isinstance(blk[k], ast.Assign) and len(blk[k].targets) == 1 and \
                        isinstance(blk[k].targets[0], ast.Name) and blk[k].targets[0].id in Xs and \
                        isinstance(blk[k].value, ast.List) and not blk[k].value.elts:
                    inits[blk[k].targets[0].id] = blk[k]
                    k -= 1
                if set(inits) != set(Xs):
                    continue
                if any(sum(1 for x in ast.walk(fn) if isinstance(x, ast.Name) and x.id == X) != 3 for X in Xs):
                    continue
                new1, appended, ok = [], {}, True
                for s_ in l1.body:
                    if isinstance(s_, ast.Assign) and all(isinstance(t, ast.Name) for t in s_.targets):
                        new1.append(s_)
                    elif isinstance(s_, ast.Expr) and isinstance(s_.value, ast.Call) and isinstance(s_.value.func, ast.Attribute) \
                            and s_.value.func.attr == 'append' and isinstance(s_.value.func.value, ast.Name) and \
                            s_.value.func.value.id in Xs and len(s_.value.args) == 1 and not s_.value.keywords and \
                            s_.value.func.value.id not in appended:
                        X = s_.value.func.value.id
                        appended[X] = True
                        t = copy.deepcopy(l2.target.elts[1 + Xs.index(X)])
                        new1.append(ast.copy_location(ast.Assign(targets=[t], value=s_.value.args[0]), s_))
                    else:
                        ok = False
                        break
                if not ok or set(appended) != set(Xs):
                    continue
                assigned1 = {t.id for s_ in l1.body if isinstance(s_, ast.Assign) for t in s_.targets}
                reads1 = {x.id for s_ in l1.body for x in ast.walk(s_) if isinstance(x, ast.Name) and isinstance(x.ctx, ast.Load)}
                writes2 = set()
                for s_ in l2.body:
                    for x in ast.walk(s_):
                        if isinstance(x, ast.Name) and isinstance(x.ctx, ast.Store):
                            writes2.add(x.id)
                        if isinstance(x, (ast.Subscript, ast.Attribute)) and isinstance(x.ctx, ast.Store):
                            b_ = x
                            while isinstance(b_, (ast.Subscript, ast.Attribute)):
                                b_ = b_.value
                            if isinstance(b_, ast.Name):
                                writes2.add(b_.id)
                reads2 = {x.id for s_ in l2.body for x in ast.walk(s_) if isinstance(x, ast.Name) and isinstance(x.ctx, ast.Load)}
                tnames = {x.id for x in ast.walk(l2.target) if isinstance(x, ast.Name)}
                if (writes2 & ((reads1 | {S}) - tnames)) or (reads2 & (assigned1 - tnames)) or (assigned1 & tnames):
                    continue
                l1.body = new1 + l2.body
                blk.remove(l2)
                for X in Xs:
                    blk.remove(inits[X])
    ast.fix_missing_locations(fn)
    return fn


def _path(e):
    """text of an access path made of names, attributes and subscripts; the path without its last subscript"""
    return norm(e)


def _reads(expr):
    """paths read by a movable expression: (path text, kind) with kind 'len' (only the length of the object matters),
    'elem' (an element / slice of the object), 'obj' (the object as a whole)"""
    out = []

    def rec(e, ctx='obj'):
        if isinstance(e, ast.Call) and isinstance(e.func, ast.Name) and e.func.id == 'len' and len(e.args) == 1:
            out.append((norm(e.args[0]), 'len'))
            inner = e.args[0]
            while isinstance(inner, (ast.Subscript, ast.Attribute)):
                if isinstance(inner, ast.Subscript):
                    rec(inner.slice, 'obj')
                    out.append((norm(inner.value), 'elem'))
                inner = inner.value
            return
        if isinstance(e, ast.Subscript):
            out.append((norm(e.value), 'elem'))
            rec(e.slice, 'obj')
            inner = e.value
            while isinstance(inner, (ast.Subscript, ast.Attribute)):
                if isinstance(inner, ast.Subscript):
                    out.append((norm(inner.value), 'elem'))
                    rec(inner.slice, 'obj')
                inner = inner.value
            return
        if isinstance(e, ast.Attribute):
            if e.attr in ('shape', 'ndim', 'size', 'dtype'):
                out.append((norm(e.value), 'obj'))
                rec(e.value, 'obj') if isinstance(e.value, ast.Subscript) else None
            else:
                out.append((norm(e), 'obj'))
                if isinstance(e.value, ast.Subscript):
                    rec(e.value, 'obj')
            return
        if isinstance(e, ast.Name):
            out.append((e.id, 'obj'))
            return
        for c in ast.iter_child_nodes(e):
            if isinstance(c, (ast.expr, ast.Slice)):
                rec(c, ctx)
    rec(expr)
    return out


def _conflicts(expr, stmts):
    """may one of the statements change the value of the movable expression?"""
    reads = _reads(expr)
    names = {x.id for x in ast.walk(expr) if isinstance(x, ast.Name)}
    for r in stmts:
        for x in ast.walk(r):
            if isinstance(x, ast.Name) and isinstance(x.ctx, (ast.Store, ast.Del)) and x.id in names:
                return True
            if isinstance(x, ast.Attribute) and isinstance(x.ctx, (ast.Store, ast.Del)):
                p = norm(x)
                if any(rp == p or rp.startswith(p + '.') or rp.startswith(p + '[') for rp, _ in reads):
                    return True
            if isinstance(x, ast.Subscript) and isinstance(x.ctx, (ast.Store, ast.Del)):
                p = norm(x.value)
                for rp, kind in reads:
                    if rp == p and kind in ('elem', 'obj'):
                        return True
                    if rp.startswith(p + '[') or rp.startswith(p + '.'):
                        return True
            if isinstance(x, ast.AugAssign):
                tgt = x.target
                if isinstance(tgt, ast.Name) and tgt.id in names:
                    return True
            if isinstance(x, ast.Call) and isinstance(x.func, ast.Attribute) and \
                    x.func.attr in ('append', 'extend', 'insert', 'pop', 'remove', 'sort', 'reverse', 'update', 'clear', 'add',
                                    'fill', 'setdefault', 'resize'):
                p = norm(x.func.value)
                if any(rp == p or rp.startswith(p + '[') or rp.startswith(p + '.') for rp, _ in reads):
                    return True
            if isinstance(x, ast.Call) and not (isinstance(x.func, ast.Attribute) or
                                                 (isinstance(x.func, ast.Name) and x.func.id in PURE_CALLS)):
                # a call that receives one of the objects may change it (methods of the object itself are handled above
                # when they are known mutators; other method calls are assumed to leave lengths / elements of OTHER objects alone)
                argn = {n_.id for a in x.args for n_ in ast.walk(a) if isinstance(n_, ast.Name)}
                if argn & names and any(kind != 'len' for _, kind in reads):
                    # element values may change through the callee only if the object itself is handed over
                    whole = {a.id for a in x.args if isinstance(a, ast.Name)}
                    if whole & names:
                        return True
    return False
