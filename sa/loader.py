"""Parse the repository and build the symbol tables every engine uses."""
import ast
import hashlib
import os
import warnings


class AnalysisError(Exception):
    """The checker cannot do its job (exit 2).  Never a violation."""


REPO_ROOT = os.environ.get('SA_REPO_ROOT', '/repo')
PKG = 'pytenet'


class FuncInfo:
    def __init__(self, module, cls, node):
        self.module = module          # module short name, e.g. 'mps'
        self.cls = cls                # class name or None
        self.node = node              # ast.FunctionDef / Lambda
        self.name = node.name
        self.qual = f'{module}.{cls}.{node.name}' if cls else f'{module}.{node.name}'
        decos = [ast.unparse(d) for d in node.decorator_list]
        self.is_classmethod = 'classmethod' in decos
        self.is_property = 'property' in decos
        self.is_static = 'staticmethod' in decos
        self.params = [a.arg for a in node.args.args]
        self.defaults = {}
        nd = len(node.args.defaults)
        for a, d in zip(node.args.args[len(node.args.args) - nd:], node.args.defaults):
            self.defaults[a.arg] = d
        self.annotations = {a.arg: (ast.unparse(a.annotation) if a.annotation else None)
                            for a in node.args.args}

    def __repr__(self):
        return f'<Func {self.qual}>'


class ClassInfo:
    def __init__(self, module, node):
        self.module = module
        self.node = node
        self.name = node.name
        self.qual = f'{module}.{node.name}'
        self.bases = [ast.unparse(b) for b in node.bases]
        self.methods = {}
        self.class_attrs = {}

    def __repr__(self):
        return f'<Class {self.qual}>'


class ModuleInfo:
    def __init__(self, name, path, source, tree):
        self.name = name
        self.path = path
        self.source = source
        self.tree = tree
        self.all = None
        self.functions = {}     # name -> FuncInfo
        self.classes = {}       # name -> ClassInfo
        self.imports = {}       # local name -> ('repo', module, name) | ('ext', dotted)
        self.warnings = []


_KNOWN = None


def known_symbols():
    global _KNOWN
    if _KNOWN is None:
        import json
        p = os.path.join(os.path.dirname(os.path.abspath(__file__)), 'known_symbols.json')
        _KNOWN = json.load(open(p)) if os.path.exists(p) else {}
    return _KNOWN


def _prenormalise(modname, tree):
    """behaviour-preserving rewrites applied to every module before it is indexed (disable with SA_NORMALISE=0):
    helpers that the pinned tree does not have are inlined into their callers (sa/inline.py)"""
    if os.environ.get('SA_NORMALISE', '1') == '0':
        return tree
    k = known_symbols().get(modname)
    if k is None:
        return tree
    from .inline import inline_unknown, generators_to_lists
    tree = generators_to_lists(tree, set(k['functions']))
    tree, _ = inline_unknown(tree, k['functions'], k['methods'])
    # functions of the pinned tree: spellings the pinned version does not use are rewritten (sa/normal.py)
    from .normal import normalise_function
    for i, s in enumerate(tree.body):
        if isinstance(s, ast.FunctionDef) and s.name in k['locals']:
            tree.body[i] = normalise_function(s, k['locals'][s.name], k.get('spellings', {}).get(s.name, ()))
        elif isinstance(s, ast.ClassDef):
            for j, m in enumerate(s.body):
                if isinstance(m, ast.FunctionDef) and f'{s.name}.{m.name}' in k['locals']:
                    s.body[j] = normalise_function(m, k['locals'][f'{s.name}.{m.name}'],
                                                   k.get('spellings', {}).get(f'{s.name}.{m.name}', ()))
    return tree


class Repo:
    def __init__(self, root=None):
        self.root = root or REPO_ROOT
        self.pkgdir = os.path.join(self.root, PKG)
        self.modules = {}
        self.funcs = {}     # qual -> FuncInfo
        self.classes = {}   # class name -> ClassInfo (class names are unique in the package)
        self._load()

    # ------------------------------------------------------------------
    def _load(self):
        if not os.path.isdir(self.pkgdir):
            raise AnalysisError(f'package directory {self.pkgdir} not found')
        names = sorted(f for f in os.listdir(self.pkgdir) if f.endswith('.py'))
        if not names:
            raise AnalysisError('no python sources found')
        h = hashlib.sha256()
        for fn in names:
            path = os.path.join(self.pkgdir, fn)
            with open(path, encoding='utf-8') as f:
                src = f.read()
            h.update(fn.encode() + b'\0' + src.encode() + b'\0')
            with warnings.catch_warnings(record=True) as wl:
                warnings.simplefilter('always')
                try:
                    tree = ast.parse(src, filename=path)
                except SyntaxError as e:
                    raise AnalysisError(f'{path} does not parse: {e}')
            tree = _prenormalise(fn[:-3], tree)
            mod = ModuleInfo(fn[:-3], path, src, tree)
            mod.warnings = [str(w.message) for w in wl]
            self._index_module(mod)
            self.modules[mod.name] = mod
        self.digest = h.hexdigest()

    def _index_module(self, mod):
        for n in mod.tree.body:
            if isinstance(n, ast.Assign) and len(n.targets) == 1 and \
                    isinstance(n.targets[0], ast.Name) and n.targets[0].id == '__all__':
                try:
                    mod.all = [e.value for e in n.value.elts]
                except Exception:
                    mod.all = None
            elif isinstance(n, ast.FunctionDef):
                fi = FuncInfo(mod.name, None, n)
                mod.functions[n.name] = fi
                self.funcs[fi.qual] = fi
            elif isinstance(n, ast.ClassDef):
                ci = ClassInfo(mod.name, n)
                for m in n.body:
                    if isinstance(m, ast.FunctionDef):
                        fi = FuncInfo(mod.name, n.name, m)
                        ci.methods[m.name] = fi
                        self.funcs[fi.qual] = fi
                    elif isinstance(m, ast.Assign) and len(m.targets) == 1 and isinstance(m.targets[0], ast.Name):
                        ci.class_attrs[m.targets[0].id] = m.value
                mod.classes[n.name] = ci
                if n.name in self.classes:
                    raise AnalysisError(f'duplicate class name {n.name}')
                self.classes[n.name] = ci
            elif isinstance(n, ast.ImportFrom):
                for a in n.names:
                    local = a.asname or a.name
                    if n.level >= 1:
                        mod.imports[local] = ('repo', n.module, a.name)
                    else:
                        mod.imports[local] = ('ext', f'{n.module}.{a.name}')
            elif isinstance(n, ast.Import):
                for a in n.names:
                    local = a.asname or a.name
                    mod.imports[local] = ('ext', a.name)

    # ------------------------------------------------------------------
    def func(self, qual):
        """Anchored lookup: a vanished anchor is an analysis error."""
        if qual not in self.funcs:
            raise AnalysisError(f'anchored function {qual} not found in {self.pkgdir}')
        return self.funcs[qual]

    def has_func(self, qual):
        return qual in self.funcs

    def cls(self, name):
        if name not in self.classes:
            raise AnalysisError(f'anchored class {name} not found')
        return self.classes[name]

    def resolve_name(self, module, name):
        """Resolve a module-level name as seen from `module`.

        Returns ('func', FuncInfo) | ('class', ClassInfo) | ('ext', dotted) | None
        """
        mod = self.modules[module]
        if name in mod.functions:
            return ('func', mod.functions[name])
        if name in mod.classes:
            return ('class', mod.classes[name])
        if name in mod.imports:
            imp = mod.imports[name]
            if imp[0] == 'repo':
                _, m, n = imp
                if m in self.modules:
                    return self.resolve_name(m, n)
                return None
            return ('ext', imp[1])
        return None

    def public_names(self, module):
        mod = self.modules[module]
        if mod.all is not None:
            return list(mod.all)
        return [n for n in list(mod.functions) + list(mod.classes) if not n.startswith('_')]

    def loc(self, fi_or_mod, node):
        mod = fi_or_mod.module if isinstance(fi_or_mod, FuncInfo) else fi_or_mod
        return f'{PKG}/{mod}.py:{getattr(node, "lineno", "?")}'

    def units(self):
        return {'modules': len(self.modules), 'functions': len(self.funcs),
                'classes': len(self.classes), 'digest': self.digest[:16]}


def norm(node):
    """Normalised text of a construct (used as a key; never a line number)."""
    if isinstance(node, str):
        return ' '.join(node.split())
    return ' '.join(ast.unparse(node).split())


def walk_no_nested(node):
    """ast.walk that does not descend into nested function/class/lambda bodies."""
    todo = list(ast.iter_child_nodes(node))
    while todo:
        n = todo.pop()
        yield n
        if isinstance(n, (ast.FunctionDef, ast.ClassDef, ast.Lambda)):
            continue
        todo.extend(ast.iter_child_nodes(n))
