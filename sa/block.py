"""Frames and charge tags inside bond_ops.qr and bond_ops.split_matrix_svd (DESIGN.md 4.5).

Per matrix axis a *frame*: 'O' (caller's order) or 'S' (stably sorted by the charge vector of that side); per
index pair (i0, i1) a *tag*: side (0 = rows / q0, 1 = columns / q1) and the frame of the charge vector it was
computed from.  The conditional permutation `if np.any(idx - np.arange(len(idx))): q = q[idx]; A = A[idx, :]`
is the identity when its guard is false, so after the `if` both the vector and the matrix axis are in frame 'S'
provided both were moved inside; the un-permutation must use argsort of the *same* idx under the *same* guard on an
axis that is in frame 'S'.
"""
import ast

from .loader import norm, AnalysisError
from .match import pmatch


class Mat:
    def __init__(self, roles, frames=None, origin=None):
        self.roles = list(roles)            # per axis: 'rows' | 'cols' | 'interm'
        self.frames = list(frames) if frames else [None] * len(roles)   # 'O' | 'S' | None (fresh) ; interm: 'I'
        self.origin = origin

    def copy(self):
        return Mat(self.roles, self.frames, self.origin)

    def __repr__(self):
        return 'Mat(' + ', '.join(f'{r}:{f}' for r, f in zip(self.roles, self.frames)) + ')'


class Vec:
    def __init__(self, side, frame):
        self.side = side        # 0, 1 or 'interm'
        self.frame = frame

    def copy(self):
        return Vec(self.side, self.frame)


SIDE_ROLE = {0: 'rows', 1: 'cols'}
FLOAT_TYPES = {'float', 'complex', 'np.float64', 'np.complex128', 'np.double', 'np.cdouble', 'np.float32', 'np.complex64'}


class BlockAnalysis:
    def __init__(self, fi, report, kind, imports=None):
        self.fi = fi
        self.imports = imports or {}
        self.rep = report
        self.kind = kind                # 'qr' | 'svd'
        p = fi.params
        self.A, self.q = p[0], (p[1], p[2])
        self.shape_of = {p[0]}      # names that have the shape of the matrix (the parameter and working copies of it)
        self.env = {self.A: Mat(['rows', 'cols'], ['O', 'O']),
                    self.q[0]: Vec(0, 'O'), self.q[1]: Vec(1, 'O')}
        self.perm = {}          # name -> side
        self.where = {}         # name -> (side, frame)
        self.lo = {}            # name -> where-name
        self.hi = {}
        self.interm = {}        # Dprev/D pair
        self.maxdim = None
        self.loopvar = None
        self.qis = None
        self.counts = {'cond_perm': 0, 'unperm': 0, 'block_store': 0, 'dummy': 0}
        self.sub = {}           # names of per-block factors: name -> role index
        self.ret = None
        self.inexact = set()    # names of arrays known to have a floating / complex dtype

    # ------------------------------------------------------------------
    def ok(self, kind, node, cond, text):
        self.rep(kind, node, bool(cond), text)
        return bool(cond)

    def resolved(self, func):
        """dotted name of a callee with the module's imports applied (`svd` -> scipy.linalg.svd)"""
        text = norm(func)
        head, _, rest = text.partition('.')
        imp = self.imports.get(head)
        if imp and imp[0] == 'ext' and head not in ('np', 'numpy'):
            text = imp[1] + ('.' + rest if rest else '')
        if text.startswith('numpy.'):
            text = 'np.' + text[6:]
        return text

    def guard_perm(self, test):
        b = pmatch('np.any(__p - np.arange(len(__q)))', test)
        if b is not None and b['__p'] in self.perm:
            if b['__q'] != b['__p']:
                self.ok('perm-pair', test, False, f'guard `{norm(test)}` compares the permutation `{b["__p"]}` with the identity '
                                                  f'of the length of `{b["__q"]}`')
            return b['__p']
        return None

    def run(self):
        self.block(self.fi.node.body)

    def block(self, stmts):
        for s in stmts:
            self.stmt(s)

    # ------------------------------------------------------------------
    def stmt(self, s):
        env = self.env
        if isinstance(s, ast.Expr) and isinstance(s.value, ast.Constant):
            return
        if isinstance(s, ast.Assert):
            return
        if isinstance(s, ast.Return):
            self.ret = s
            return
        if isinstance(s, ast.If):
            p = self.guard_perm(s.test)
            if p is not None:
                self.cond_perm(s, p)
                return
            if pmatch('len(__q) == 0', s.test) is not None and pmatch('len(__q) == 0', s.test)['__q'] == self.qis:
                self.dummy(s)
                return
            if any(pmatch(f'{n_}.shape[0] > 0', s.test) is not None for n_ in self.shape_of):
                self.block(s.body)
                return
            b = pmatch('not np.issubdtype(__x.dtype, np.inexact)', s.test)
            if b is not None and len(s.body) == 1 and not s.orelse and isinstance(s.body[0], ast.Assign):
                a = s.body[0]
                c = pmatch(f'{b["__x"]}.astype(__t)', a.value)
                if norm(a.targets[0]) == b['__x'] and c is not None and c['__t'] in FLOAT_TYPES:
                    # integer input is promoted; on the other path the dtype is inexact already
                    self.inexact.add(b['__x'])
                    return
            # a boolean flag that was raised inside the branch of one conditional permutation stands for that guard
            if isinstance(s.test, ast.Name) and s.test.id in getattr(self, 'flags', {}):
                self.cond_perm(s, self.flags[s.test.id])
                return
            rets = [r for st in s.body for r in ast.walk(st) if isinstance(r, ast.Return)]
            if rets and not getattr(self, 'in_dummy', False):
                # a branch that builds (., 1) / (1, .) factors is the dummy-bond branch: it may be entered exactly when the
                # two charge vectors share no value
                dummy_like = any(isinstance(c, ast.Call) and norm(c.func) == 'np.zeros' and c.args and
                                 isinstance(c.args[0], ast.Tuple) and any(norm(e) == '1' for e in c.args[0].elts)
                                 for st in s.body for c in ast.walk(st))
                if dummy_like and self.counts['dummy'] == 0:
                    self.ok('dummy', s, False, f'the dummy-bond branch is entered exactly when the charge vectors share no value '
                            f'(`len(np.intersect1d(q0, q1)) == 0`); found the condition `{norm(s.test)[:80]}`')
                    self.dummy(s)
                    return
                self.ok('return', s, False, f'every returning path runs through the sorted block loop (or the dummy-bond branch): '
                        f'`if {norm(s.test)[:60]}: ... return` hands back factors that the frame / charge argument does not cover')
                return
            raise AnalysisError(f'{self.fi.qual}: conditional `{norm(s.test)[:60]}` is not a recognised idiom')
        if isinstance(s, ast.For):
            self.loop(s)
            return
        if isinstance(s, ast.AugAssign):
            if isinstance(s.target, ast.Name) and s.target.id in self.interm.values():
                self.interm_inc = s
                return
            if isinstance(s.target, ast.Name) and isinstance(s.op, ast.Add):
                self.Dname = s.target.id
                self.D_incr = s
                return
            raise AnalysisError(f'{self.fi.qual}: `{norm(s)[:60]}` not recognised')
        if isinstance(s, ast.Assign) and len(s.targets) == 1:
            self.assign(s, s.targets[0], s.value)
            return
        raise AnalysisError(f'{self.fi.qual}: statement `{norm(s)[:60]}` is not a recognised idiom')

    # ------------------------------------------------------------------
    def assign(self, s, t, v):
        env = self.env
        if isinstance(t, ast.Tuple):
            # Qsub, Rsub = np.linalg.qr(A[i0:i1, j0:j1], mode='reduced') / usub, ssub, vsub = np.linalg.svd(...)
            fname = self.resolved(v.func) if isinstance(v, ast.Call) else None
            if fname in ('np.linalg.qr', 'np.linalg.svd', 'scipy.linalg.svd'):
                self.block_read(s, v.args[0])
                want = 2 if fname.endswith('qr') else 3
                ow = [k for k in v.keywords if k.arg and k.arg.startswith('overwrite_') and
                      not (isinstance(k.value, ast.Constant) and k.value.value is False)]
                self.ok('block-call', s, not ow, 'the block factorisation may not destroy its argument (a view of the '
                        'input matrix whenever no sorting copy was made)')
                if len(t.elts) != want:
                    raise AnalysisError(f'{self.fi.qual}: unpacking of `{fname}` not recognised')
                names = [norm(x) for x in t.elts]
                if want == 2:
                    self.sub = {names[0]: 'left', names[1]: 'right'}
                    mode = [k for k in v.keywords if k.arg == 'mode']
                    # (`mode='reduced'` is the default of np.linalg.qr: leaving it out selects the same factorisation)
                    self.ok('block-call', s, (not mode and len(v.args) == 1) or
                            (mode and isinstance(mode[0].value, ast.Constant) and mode[0].value.value == 'reduced'), 'block QR is the reduced factorisation (intermediate '
                            'dimension = min(rows, cols) of the block)')
                else:
                    self.sub = {names[0]: 'left', names[1]: 'sigma', names[2]: 'right'}
                    fm = [k for k in v.keywords if k.arg == 'full_matrices']
                    self.ok('block-call', s, fm and isinstance(fm[0].value, ast.Constant) and fm[0].value.value is False,
                            'block SVD is the reduced factorisation (full_matrices=False)')
                return
            raise AnalysisError(f'{self.fi.qual}: tuple assignment `{norm(s)[:60]}` not recognised')
        if isinstance(t, ast.Subscript):
            self.block_store(s, t, v)
            return
        if not isinstance(t, ast.Name):
            raise AnalysisError(f'{self.fi.qual}: target `{norm(t)}` not recognised')
        name = t.id
        vt = norm(v)
        if isinstance(v, ast.Constant) and v.value is False:
            if not hasattr(self, 'flag_init'):
                self.flag_init = {}
            self.flag_init[name] = False
            return
        # a working copy of the matrix under another name: the factorisation goes on with that name; the parameter keeps
        # its shape - and its element type, which a promotion of the working copy does not change
        if isinstance(v, ast.Name) and v.id == self.A and name != self.A and name not in env:
            env[name] = env[self.A]
            self.shape_of.add(name)
            self.A = name
            return
        # q = np.array(q)
        b = pmatch('np.array(__x)', v)
        if b is not None and b['__x'] == name and isinstance(env.get(name), Vec):
            return
        # idx = np.argsort(q, kind='mergesort')
        if isinstance(v, ast.Call) and norm(v.func) == 'np.argsort' and len(v.args) == 1 and \
                isinstance(env.get(norm(v.args[0])), Vec):
            vec = env[norm(v.args[0])]
            stable = any(k.arg == 'kind' and isinstance(k.value, ast.Constant) and k.value.value in ('mergesort', 'stable')
                         for k in v.keywords)
            self.ok('perm', s, vec.frame == 'O' and vec.side in (0, 1), f'`{norm(s)}`: sorting permutation of the '
                    f'{SIDE_ROLE.get(vec.side)} charge vector in caller order')
            self.ok('perm', s, stable, f'`{norm(s)}`: stable sort (equal charges keep their relative order)')
            self.perm[name] = vec.side
            return
        if isinstance(v, ast.Call) and v.args and all(isinstance(env.get(norm(a)), Vec) for a in v.args) and \
                norm(v.func) in ('np.intersect1d', 'np.unique', 'np.union1d', 'set', 'sorted', 'np.setdiff1d'):
            sides = {getattr(env.get(norm(a)), 'side', None) for a in v.args}
            self.ok('loop-domain', s, norm(v.func) == 'np.intersect1d' and sides == {0, 1},
                    f'`{norm(s)}`: the charges to be processed are the intersection of both charge vectors')
            self.qis = name
            return
        if vt in {f'min({n_}.shape)' for n_ in self.shape_of} | \
                {t_ for n_ in self.shape_of for t_ in (f'min({n_}.shape[0], {n_}.shape[1])', f'min({n_}.shape[1], {n_}.shape[0])',
                                                       f'min(*{n_}.shape)', f'np.min({n_}.shape)')}:
            self.maxdim = name
            return
        if isinstance(v, ast.Constant) and v.value == 0:
            self.Dname = name
            return
        # allocations
        if isinstance(v, ast.Call) and norm(v.func) == 'np.zeros':
            shp = v.args[0]
            dims = [norm(x) for x in (shp.elts if isinstance(shp, ast.Tuple) else [shp])]
            roles = []
            for d in dims:
                if d in {f'{n_}.shape[0]' for n_ in self.shape_of}:
                    roles.append('rows')
                elif d in {f'{n_}.shape[1]' for n_ in self.shape_of}:
                    roles.append('cols')
                elif d == self.maxdim or d == '1':
                    roles.append('interm')
                else:
                    raise AnalysisError(f'{self.fi.qual}: allocation `{norm(s)[:70]}` has an unrecognised extent {d}')
            if len(roles) == 2:
                dt = [k.value for k in v.keywords if k.arg == 'dtype']
                dtx = norm(dt[0]) if dt else 'float'
                good = dtx in FLOAT_TYPES or (dtx.endswith('.dtype') and dtx[:-6] in self.inexact) or \
                    (dtx.startswith('np.result_type(') and any(t in dtx for t in ('float', 'complex'))) or \
                    (dtx.startswith('np.promote_types(') and any(t in dtx for t in ('float', 'complex')))
                is_dummy = (dims.count('1') == 1 and self.maxdim not in dims)
                if not is_dummy:
                    self.ok('dtype', s, good, f'`{norm(s)[:80]}`: the factor array receives floating-point block factors and is '
                            f'allocated with an inexact dtype (dtype {dtx}; integer input must have been promoted before)')
                m = Mat(roles, [None if r != 'interm' else 'I' for r in roles], origin=s)
                m.dummy = (dims.count('1') == 1 and self.maxdim not in dims)
                env[name] = m
            else:
                env[name] = Vec('interm', 'I')
                env[name].alloc = s
            return
        # where / slice ends
        b = pmatch('np.where(__q == __c)[0]', v)
        if b is not None and isinstance(env.get(b['__q']), Vec):
            vec = env[b['__q']]
            self.where[name] = (vec.side, vec.frame, b['__c'], b['__q'])
            return
        b = pmatch('__w[0]', v)
        if b is not None and b['__w'] in self.where:
            self.lo[name] = dict(w=b['__w'], tag=self.where[b['__w']])
            return
        b = pmatch('__w[-1] + 1', v)
        if b is not None and b['__w'] in self.where:
            self.hi[name] = dict(w=b['__w'], tag=self.where[b['__w']])
            return
        if isinstance(v, ast.Name) and v.id == getattr(self, 'Dname', None):
            self.Dprev = name
            return
        # index set of the truncation
        if isinstance(v, ast.Call) and norm(v.func) == 'retained_bond_indices':
            self.trunc = (name, norm(v.args[0]), s)
            self.truncated = {}
            return
        # restrictions / truncations / un-permutations: X = X[...]
        if isinstance(v, ast.Subscript) and isinstance(v.value, ast.Name) and v.value.id == name and name in env:
            self.self_index(s, name, v)
            return
        if isinstance(v, ast.Subscript) and isinstance(v.value, ast.Name) and isinstance(env.get(v.value.id), Vec):
            # label of the dummy branch: q = q0[:1]
            src = env[v.value.id]
            env[name] = Vec(src.side, src.frame)
            env[name].slice_of = (v.value.id, norm(v.slice))
            return
        raise AnalysisError(f'{self.fi.qual}: assignment `{norm(s)[:70]}` is not a recognised idiom')

    # ------------------------------------------------------------------
    def cond_perm(self, s, pname):
        side = self.perm[pname]
        env = self.env
        if s.orelse:
            raise AnalysisError(f'{self.fi.qual}: conditional permutation with an else branch')
        moved = []
        for st in list(s.body):
            # a re-arrangement written in place (out=<operand>, X[...] = X[..]) touches the caller's array: reported,
            # then followed as if it were the rebinding X = X[..] so that the frames stay meaningful
            call = st.value if isinstance(st, (ast.Expr, ast.Assign)) and isinstance(st.value, ast.Call) else None
            outkw = [k for k in (call.keywords if call else []) if k.arg == 'out']
            if call is not None and outkw and norm(call.func) == 'np.take' and len(call.args) >= 2 and \
                    isinstance(call.args[0], ast.Name) and norm(outkw[0].value) == call.args[0].id:
                nm = call.args[0].id
                ax = [k for k in call.keywords if k.arg == 'axis']
                axv = ax[0].value.value if ax and isinstance(ax[0].value, ast.Constant) else (
                    call.args[2].value if len(call.args) > 2 and isinstance(call.args[2], ast.Constant) else None)
                self.ok('perm', st, False, f'`{norm(st)[:70]}`: the sorted arrangement is written into a new array (the '
                        f'operand `{nm}` belongs to the caller; out=`{nm}` permutes it in place)')
                if axv in (0, 1):
                    sl = ast.Slice(lower=None, upper=None, step=None)
                    elts = [call.args[1], sl] if axv == 0 else [sl, call.args[1]]
                    st = ast.Assign(targets=[ast.Name(id=nm, ctx=ast.Store())],
                                    value=ast.Subscript(value=ast.Name(id=nm, ctx=ast.Load()),
                                                        slice=ast.Tuple(elts=elts, ctx=ast.Load()), ctx=ast.Load()))
                    ast.copy_location(st, call)
                    ast.fix_missing_locations(st)
            if isinstance(st, ast.Assign) and len(st.targets) == 1 and isinstance(st.targets[0], ast.Subscript) and \
                    isinstance(st.targets[0].value, ast.Name) and isinstance(st.value, ast.Subscript) and \
                    norm(st.value.value) == st.targets[0].value.id and \
                    norm(st.targets[0].slice) in (':', '...', '(slice(None, None, None), slice(None, None, None))', ':, :'):
                nm = st.targets[0].value.id
                self.ok('perm', st, False, f'`{norm(st)[:70]}`: the sorted arrangement is written into a new array (the '
                        f'operand `{nm}` belongs to the caller; a slice store permutes it in place)')
                st2 = ast.Assign(targets=[ast.Name(id=nm, ctx=ast.Store())], value=st.value)
                ast.copy_location(st2, st)
                ast.fix_missing_locations(st2)
                st = st2
            if isinstance(st, ast.Assign) and len(st.targets) == 1 and isinstance(st.targets[0], ast.Name) and \
                    isinstance(st.value, ast.Constant) and st.value.value is True and \
                    getattr(self, 'flag_init', {}).get(st.targets[0].id) is False:
                if not hasattr(self, 'flags'):
                    self.flags = {}
                if st.targets[0].id in self.flags and self.flags[st.targets[0].id] != pname:
                    # raised under two different guards: it stands for neither
                    self.flags[st.targets[0].id] = None
                else:
                    self.flags[st.targets[0].id] = pname
                continue
            if not (isinstance(st, ast.Assign) and len(st.targets) == 1 and isinstance(st.targets[0], ast.Name) and
                    isinstance(st.value, ast.Subscript) and norm(st.value.value) == st.targets[0].id):
                raise AnalysisError(f'{self.fi.qual}: `{norm(st)[:60]}` inside a conditional permutation not recognised')
            name = st.targets[0].id
            obj = env.get(name)
            idx = st.value.slice
            if isinstance(obj, Vec):
                un = pmatch('np.argsort(__p)', idx)
                used = norm(idx)
                self.counts['cond_perm'] += 0
                ok = used == pname and obj.side == side
                self.ok('perm-pair', st, ok, f'`{norm(st)}`: the {SIDE_ROLE.get(obj.side)} charge vector is permuted with '
                        f'its own sorting permutation under the guard on `{pname}`')
                if used in self.perm and obj.frame == 'O':
                    obj.frame = 'S' if self.perm[used] == obj.side else 'X'
                moved.append(('vec', obj.side))
                continue
            if isinstance(obj, Mat):
                elts = idx.elts if isinstance(idx, ast.Tuple) else [idx]
                if len(elts) != 2:
                    raise AnalysisError(f'{self.fi.qual}: `{norm(st)[:60]}`: expected a two-axis index')
                axis = None
                for k, e in enumerate(elts):
                    if not (isinstance(e, ast.Slice) and e.lower is None and e.upper is None):
                        if axis is not None:
                            raise AnalysisError(f'{self.fi.qual}: `{norm(st)[:60]}`: two permuted axes at once')
                        axis = k
                e = elts[axis]
                un = pmatch('np.argsort(__p)', e)
                if un is not None:
                    # un-permutation
                    self.counts['unperm'] += 1
                    p2 = un['__p']
                    role = obj.roles[axis]
                    self.ok('unperm', st, p2 == pname, f'`{norm(st)}`: un-sorting uses the permutation `{p2}` of its guard `{pname}`')
                    self.ok('unperm', st, role == SIDE_ROLE.get(self.perm.get(p2)),
                            f'`{norm(st)}`: axis {axis} ({role}) is un-sorted with the permutation of the '
                            f'{SIDE_ROLE.get(self.perm.get(p2))} side')
                    self.ok('unperm', st, obj.frames[axis] == 'S', f'`{norm(st)}`: axis {axis} is in sorted order before it '
                            f'is un-sorted (frame {obj.frames[axis]})')
                    if obj.frames[axis] == 'S' and p2 == pname and role == SIDE_ROLE.get(self.perm.get(p2)):
                        obj.frames[axis] = 'O'
                    else:
                        obj.frames[axis] = 'X'
                    moved.append(('unperm', axis))
                    continue
                used = norm(e)
                role = obj.roles[axis]
                self.counts['cond_perm'] += 1
                ok = used == pname and role == SIDE_ROLE[side]
                self.ok('perm-pair', st, ok, f'`{norm(st)}`: axis {axis} ({role}) of the matrix is permuted with the sorting '
                        f'permutation of the {SIDE_ROLE.get(self.perm.get(used))} side, under the guard on `{pname}`')
                if obj.frames[axis] == 'O' and ok:
                    obj.frames[axis] = 'S'
                else:
                    obj.frames[axis] = 'X'
                moved.append(('mat', axis))
                continue
            raise AnalysisError(f'{self.fi.qual}: `{norm(st)[:60]}`: permuted object not tracked')
        kinds = {m[0] for m in moved}
        if 'unperm' in kinds:
            self.ok('unperm', s, kinds == {'unperm'} and len(moved) == 1, 'one factor is un-sorted per guard')
            return
        # sorting: matrix axis and charge vector of that side move together
        self.ok('perm-pair', s, ('vec', side) in moved and ('mat', side) in moved and len(moved) == 2,
                f'under the guard on `{pname}` the {SIDE_ROLE[side]} charge vector and axis {side} of the matrix are '
                f'permuted together (moved: {moved})')

    # ------------------------------------------------------------------
    def slice_tag(self, e):
        """tag of an index expression lo:hi built from one np.where"""
        if isinstance(e, ast.Slice) and isinstance(e.lower, ast.Name) and isinstance(e.upper, ast.Name):
            lo, hi = self.lo.get(e.lower.id), self.hi.get(e.upper.id)
            if lo and hi and lo['w'] == hi['w'] and lo['tag'] == hi['tag']:
                return lo['tag']
            if lo and hi:
                return None
            if isinstance(e.lower, ast.Name) and e.lower.id == getattr(self, 'Dprev', None) and \
                    e.upper.id == getattr(self, 'Dname', None):
                return ('interm',)
        return None

    def block_read(self, s, e):
        if not (isinstance(e, ast.Subscript) and norm(e.value) == self.A and isinstance(e.slice, ast.Tuple) and
                len(e.slice.elts) == 2):
            raise AnalysisError(f'{self.fi.qual}: block read `{norm(e)[:50]}` not recognised')
        A = self.env[self.A]
        for axis, ie in enumerate(e.slice.elts):
            tag = self.slice_tag(ie)
            if tag is None or tag == ('interm',):
                self.ok('block-read', s, False, f'`{norm(e)}`: index {axis} is not a charge-sector slice')
                continue
            side, frame, cvar, qname = tag
            self.ok('block-read', s, side == axis, f'`{norm(e)}`: axis {axis} of the block is selected with the '
                    f'{SIDE_ROLE[side]} charge vector')
            self.ok('block-read', s, frame == 'S' and A.frames[axis] == 'S',
                    f'`{norm(e)}`: sector boundaries on axis {axis} are computed from the sorted charge vector and applied '
                    f'to the matrix in the same (sorted) order (vector {frame}, matrix {A.frames[axis]})')
            self.ok('block-read', s, cvar == self.loopvar, f'`{norm(e)}`: the sector on axis {axis} is that of the charge '
                    f'of this iteration (`{cvar}`)')

    def block_store(self, s, t, v):
        env = self.env
        name = norm(t.value)
        obj = env.get(name)
        if obj is None:
            raise AnalysisError(f'{self.fi.qual}: store `{norm(s)[:60]}` into an untracked array')
        if isinstance(obj, Mat) and getattr(obj, 'dummy', False):
            self.dummy_store(s, t, v, obj)
            return
        self.counts['block_store'] += 1
        if isinstance(obj, Vec):
            tag = self.slice_tag(t.slice)
            self.ok('block-store', s, tag == ('interm',), f'`{norm(s)}`: intermediate slots [Dprev:D] of this block')
            if name == getattr(self, 'label_name', None) or (isinstance(v, ast.Name) and v.id == self.loopvar):
                self.ok('block-store', s, isinstance(v, ast.Name) and v.id == self.loopvar,
                        f'`{norm(s)}`: the intermediate charges of the block are the charge of this iteration')
                self.label_name = name
                al = getattr(obj, 'alloc', None)
                if al is not None and not getattr(obj, 'dtype_checked', False):
                    obj.dtype_checked = True
                    dt = [k.value for k in al.value.keywords if k.arg == 'dtype']
                    dtx = norm(dt[0]) if dt else 'float'
                    qnames = {self.q[0], self.q[1]}
                    good = dtx in ('int', 'np.int64', 'np.int32', 'np.intp', 'np.int_') or \
                        (dtx.endswith('.dtype') and dtx[:-6] in qnames) or \
                        (dtx.startswith(('np.result_type(', 'np.promote_types(')) and any(q + '.dtype' in dtx for q in qnames))
                    self.ok('dtype', al, good, f'`{norm(al)[:80]}`: the intermediate charges are stored with the integer type '
                            f'of the charge vectors (dtype {dtx}); a floating-point store rounds large charges and returns '
                            f'non-integer labels')
            else:
                self.ok('block-store', s, self.sub.get(norm(v)) == 'sigma', f'`{norm(s)}`: singular values of this block')
            return
        elts = t.slice.elts if isinstance(t.slice, ast.Tuple) else [t.slice]
        if len(elts) != 2:
            raise AnalysisError(f'{self.fi.qual}: store `{norm(s)[:60]}` not a two-axis block store')
        for axis, ie in enumerate(elts):
            role = obj.roles[axis]
            tag = self.slice_tag(ie)
            if role == 'interm':
                self.ok('block-store', s, tag == ('interm',), f'`{norm(s)}`: axis {axis} addresses the intermediate slots '
                        f'[Dprev:D] of this block')
                continue
            if tag is None or tag == ('interm',):
                self.ok('block-store', s, False, f'`{norm(s)}`: axis {axis} ({role}) is not addressed by a charge-sector slice')
                obj.frames[axis] = 'X'
                continue
            side, frame, cvar, qname = tag
            self.ok('block-store', s, SIDE_ROLE[side] == role, f'`{norm(s)}`: axis {axis} ({role}) is addressed with the '
                    f'sector of the {SIDE_ROLE[side]} charge vector')
            self.ok('block-store', s, cvar == self.loopvar, f'`{norm(s)}`: the sector is that of the charge of this iteration')
            if obj.frames[axis] in (None, frame) and SIDE_ROLE[side] == role:
                obj.frames[axis] = frame
            else:
                obj.frames[axis] = 'X'
        want = 'left' if obj.roles == ['rows', 'interm'] else ('right' if obj.roles == ['interm', 'cols'] else None)
        self.ok('block-store', s, self.sub.get(norm(v)) == want, f'`{norm(s)}`: the {want} factor of the block goes into the '
                f'{want} factor of the result')

    # ------------------------------------------------------------------
    def loop(self, s):
        ok = isinstance(s.target, ast.Name) and norm(s.iter) == self.qis
        self.ok('loop-domain', s, ok, f'`for {norm(s.target)} in {norm(s.iter)}`: one block per shared charge')
        self.loopvar = norm(s.target)
        n_before = self.counts['block_store']
        self.block(s.body)
        # D bookkeeping: Dprev = D; D += extent of the block
        inc = getattr(self, 'D_incr', None)
        okd = inc is not None and getattr(self, 'Dprev', None) is not None
        if okd:
            v = norm(inc.value)
            okd = any(v == f'{n}.shape[1]' for n, r in self.sub.items() if r == 'left') or \
                any(v == f'len({n})' for n, r in self.sub.items() if r == 'sigma') or \
                any(v == f'{n}.shape[0]' for n, r in self.sub.items() if r == 'right')
        self.ok('interm', s, okd, 'the intermediate dimension advances by the intermediate extent of the block')
        self.loopvar_done = True

    def self_index(self, s, name, v):
        env = self.env
        obj = env[name]
        elts = v.slice.elts if isinstance(v.slice, ast.Tuple) else [v.slice]
        D = getattr(self, 'Dname', None)
        trunc = getattr(self, 'trunc', None)

        def is_full(e):
            return isinstance(e, ast.Slice) and e.lower is None and e.upper is None

        def is_D(e):
            return isinstance(e, ast.Slice) and e.lower is None and isinstance(e.upper, ast.Name) and e.upper.id == D

        def is_idx(e):
            return trunc is not None and isinstance(e, ast.Name) and e.id == trunc[0]
        if isinstance(obj, Vec):
            e = elts[0]
            if is_D(e):
                self.ok('interm', s, obj.side == 'interm', f'`{norm(s)}`: the used intermediate slots are kept')
                obj.cut = True
                return
            if is_idx(e):
                self.truncated[name] = True
                self.ok('restrict', s, obj.side == 'interm', f'`{norm(s)}`: retained indices applied along the intermediate axis')
                return
            raise AnalysisError(f'{self.fi.qual}: `{norm(s)[:60]}` not recognised')
        if len(elts) != 2:
            raise AnalysisError(f'{self.fi.qual}: `{norm(s)[:60]}` not recognised')
        for axis, e in enumerate(elts):
            if is_full(e):
                continue
            role = obj.roles[axis]
            if is_D(e):
                self.ok('interm', s, role == 'interm', f'`{norm(s)}`: the slice [:D] is applied to the intermediate axis '
                        f'(axis {axis} is {role})')
                obj.cut = True
            elif is_idx(e):
                self.truncated[name] = True
                self.ok('restrict', s, role == 'interm', f'`{norm(s)}`: retained indices are applied along the intermediate '
                        f'axis (axis {axis} is {role})')
            else:
                raise AnalysisError(f'{self.fi.qual}: index `{norm(e)}` in `{norm(s)[:50]}` not recognised')

    # ------------------------------------------------------------------
    def dummy(self, s):
        """`if len(qis) == 0:` branch: a valid factorisation of the zero matrix with intermediate dimension one"""
        self.counts['dummy'] += 1
        saved_env = dict(self.env)
        self.in_dummy = True
        self.dummy_ones = []
        self.ret_dummy = None
        for st in s.body:
            if isinstance(st, ast.Return):
                self.ret_dummy = st
                break
            self.stmt(st)
        self.in_dummy = False
        r = self.ret_dummy
        if r is None or not isinstance(r.value, ast.Tuple):
            raise AnalysisError(f'{self.fi.qual}: dummy-bond branch does not return a tuple')
        names = [norm(x) for x in r.value.elts]
        env = self.env
        left, right, lab = names[0], names[-2] if self.kind == 'svd' else names[1], names[-1]
        L_, R_ = env.get(left), env.get(right)
        okL = isinstance(L_, Mat) and L_.roles == ['rows', 'interm'] and getattr(L_, 'dummy', False)
        okR = isinstance(R_, Mat) and R_.roles == ['interm', 'cols'] and getattr(R_, 'dummy', False)
        self.ok('dummy', r, okL and okR, f'dummy bond: factors have shapes (rows, 1) and (1, cols) ({L_}, {R_})')
        ones = [d for d in self.dummy_ones if d[0] == left]
        self.ok('dummy', r, len(ones) == 1 and ones[0][1] == ('0', '0') and ones[0][2] == '1' and
                not [d for d in self.dummy_ones if d[0] != left],
                f'dummy bond: the single column of the first factor has one entry 1 (unit norm), the second factor stays '
                f'zero (stores: {self.dummy_ones})')
        lv = env.get(lab)
        sl = getattr(lv, 'slice_of', None)
        self.ok('dummy', r, isinstance(lv, Vec) and lv.side == 0 and sl is not None and sl[1] in (':1', '0:1') and
                bool(ones) and ones[0][1][0] == '0',
                f'dummy bond: the intermediate charge is the charge of the row that holds the 1 (label {sl}, so that the '
                f'first factor is formally block sparse)')
        if self.kind == 'svd':
            sv = env.get(names[1])
            self.ok('dummy', r, isinstance(sv, Vec) and sv.side == 'interm', 'dummy bond: one (zero) singular value')
        self.env = saved_env

    def dummy_store(self, s, t, v, obj):
        elts = t.slice.elts if isinstance(t.slice, ast.Tuple) else [t.slice]
        self.dummy_ones.append((norm(t.value), tuple(norm(e) for e in elts), norm(v)))

    # ------------------------------------------------------------------
    def check_return(self):
        r = self.ret
        if r is None or not isinstance(r.value, ast.Tuple):
            raise AnalysisError(f'{self.fi.qual}: main return not found')
        names = [norm(x) for x in r.value.elts]
        env = self.env
        left = env.get(names[0])
        right = env.get(names[2] if self.kind == 'svd' else names[1])
        lab = env.get(names[-1])
        self.ok('return', r, isinstance(left, Mat) and left.roles == ['rows', 'interm'] and left.frames[0] == 'O',
                f'first factor is returned with its rows in caller order ({left})')
        self.ok('return', r, isinstance(right, Mat) and right.roles == ['interm', 'cols'] and right.frames[1] == 'O',
                f'second factor is returned with its columns in caller order ({right})')
        self.ok('return', r, isinstance(lab, Vec) and lab.side == 'interm' and norm(r.value.elts[-1]) == getattr(self, 'label_name', None),
                'the returned label is the vector of intermediate charges')
        for nm, o in ((names[0], left), (names[2] if self.kind == 'svd' else names[1], right), (names[-1], lab)):
            self.ok('return', r, getattr(o, 'cut', False), f'`{nm}` is cut to the used intermediate dimension [:D]')
        if self.kind == 'svd':
            sv = env.get(names[1])
            self.ok('return', r, isinstance(sv, Vec) and sv.side == 'interm' and getattr(sv, 'cut', False),
                    'singular values are returned cut to the used intermediate dimension')
            tr = getattr(self, 'truncated', {})
            need = [names[0], names[1], names[2], names[3]]
            self.ok('restrict', r, all(tr.get(n) for n in need), f'the retained index set is applied to all of {need} '
                    f'(applied to {sorted(k for k, v in tr.items() if v)})')
            t = getattr(self, 'trunc', None)
            self.ok('restrict', r, t is not None and t[1] == names[1], 'the truncation rule is evaluated on the singular values')
