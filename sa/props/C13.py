"""C13 - compression and vector-to-MPS conversion (structural part)."""
import ast
from ..defuse import before as _before
from ..legs import LegUnknown

from ..loader import norm, AnalysisError
from ..factor import ONE
from ..match import pmatch
from . import legrules as lr
from . import sweeprules as sr
from .C01 import mode_branches, boundary_stmt, factor_rule
from .common import where

SVD_STEPS = ['mps.local_orthonormalize_left_svd', 'mps.local_orthonormalize_right_svd']


def restriction_rule(chk, repo, rid, fi, roles):
    """bond-leg restriction: the index set obtained from retained_bond_indices(S) is applied, along the bond axis,
    to every array that carries the bond leg, before any of them is used otherwise.
    roles: {name: axis} of the arrays carrying the bond leg (axis 0 or 1)"""
    n = 0
    calls = [s for s in ast.walk(fi.node) if isinstance(s, ast.Assign) and isinstance(s.value, ast.Call) and
             norm(s.value.func) == 'retained_bond_indices']
    if len(calls) != 1:
        raise AnalysisError(f'{fi.qual}: expected one retained_bond_indices call, found {len(calls)}')
    c = calls[0]
    idx = norm(c.targets[0])
    sname = norm(c.value.args[0])
    chk.ob(rid, where(repo, fi, c), f'{fi.name}: the truncation rule is evaluated on the singular values', sname in roles and
           roles.get(sname) == 0, f'argument `{sname}`', key=f'{rid}|{fi.qual}|argument')
    n += 1
    # statements following the call in the same block
    block = None
    for node in ast.walk(fi.node):
        for fld in ('body', 'orelse'):
            b = getattr(node, fld, None)
            if isinstance(b, list) and c in b:
                block = b
    after = block[block.index(c) + 1:]
    done = {}
    # a tuple assignment `a, b = x, y` evaluates x and y first: it is judged as the simultaneous assignments a = x, b = y
    flat = []
    for s in after:
        if isinstance(s, ast.Assign) and len(s.targets) == 1 and isinstance(s.targets[0], ast.Tuple) and \
                isinstance(s.value, ast.Tuple) and len(s.targets[0].elts) == len(s.value.elts):
            group = []
            for t_, v_ in zip(s.targets[0].elts, s.value.elts):
                a_ = ast.Assign(targets=[t_], value=v_)
                ast.copy_location(a_, s)
                group.append(a_)
            flat.append(group)
        else:
            flat.append([s])
    inline_used = set()
    for group in flat:
      restricted_here = set()
      for s in group:
        used = {x.id for x in ast.walk(s) if isinstance(x, ast.Name) and isinstance(x.ctx, ast.Load)}
        used -= restricted_here if len(group) > 1 else set()
        if isinstance(s, ast.Assign) and len(s.targets) == 1 and isinstance(s.targets[0], ast.Name) and \
                s.targets[0].id in roles and s.targets[0].id not in done:
            nm = s.targets[0].id
            ax = roles[nm]
            pats = [f'{nm}[{idx}]'] if ax == 0 else []
            pats += [f'{nm}[{idx}, :]'] if ax == 0 else [f'{nm}[:, {idx}]']
            ok = norm(s.value) in pats
            chk.ob(rid, where(repo, fi, s), f'{fi.name}: `{nm}` is restricted to the retained indices along its bond axis '
                   f'{ax}', ok, f'`{norm(s)}`', key=f'{rid}|{fi.qual}|restrict|{nm}')
            n += 1
            done[nm] = True
            used -= {nm}
            if len(group) > 1:
                restricted_here |= {x for x in roles if any(isinstance(g.targets[0], ast.Name) and g.targets[0].id == x
                                                            for g in group)}
                used -= restricted_here
        # a use of the restricted slice itself (`vh[idx, :] * s[:, None]` without rebinding vh) is a restricted use
        def inline_ok(u):
            occ = [x for x in ast.walk(s) if isinstance(x, ast.Name) and x.id == u and isinstance(x.ctx, ast.Load)]
            ax_ = roles[u]
            pats_ = ([f'{u}[{idx}]'] if ax_ == 0 else []) + ([f'{u}[{idx}, :]'] if ax_ == 0 else [f'{u}[:, {idx}]'])
            subs = [norm(x) for x in ast.walk(s) if isinstance(x, ast.Subscript) and isinstance(x.value, ast.Name) and x.value.id == u]
            return bool(occ) and len(subs) == len(occ) and all(t in pats_ for t in subs)
        for u in [u for u in used if u in roles and u not in done]:
            if inline_ok(u):
                inline_used.add(u)
                used = used - {u}
        early = [u for u in used if u in roles and u not in done]
        for u in early:
            chk.ob(rid, where(repo, fi, s), f'{fi.name}: `{u}` is not used before it has been restricted', False,
                   f'`{norm(s)[:70]}` uses the untruncated `{u}`', key=f'{rid}|{fi.qual}|early|{u}')
            n += 1
            done[u] = False
    missing = [nm for nm in roles if nm not in done and nm not in inline_used]
    chk.ob(rid, where(repo, fi, c), f'{fi.name}: every array carrying the new bond is restricted ({sorted(roles)})',
           not missing, f'not restricted: {missing}', key=f'{rid}|{fi.qual}|all-restricted')
    return n + 1


def from_vector_rules(chk, repo, rid):
    fi = repo.func('mps.MPS.from_vector')
    svd = [s for s in ast.walk(fi.node) if isinstance(s, ast.Assign) and isinstance(s.value, ast.Call) and
           norm(s.value.func) == 'np.linalg.svd']
    if len(svd) != 1 or not isinstance(svd[0].targets[0], ast.Tuple) or len(svd[0].targets[0].elts) != 3:
        raise AnalysisError('from_vector: `u, s, v = np.linalg.svd(...)` not found')
    U, S, V = [norm(t) for t in svd[0].targets[0].elts]
    mk = [s_ for s_ in fi.node.body if isinstance(s_, ast.Assign) and isinstance(s_.value, ast.Call) and
          norm(s_.value.func) == 'cls' and isinstance(s_.targets[0], ast.Name)]
    M = mk[0].targets[0].id if len(mk) == 1 else 'mps'
    n = restriction_rule(chk, repo, rid, fi, {U: 1, S: 0, V: 0})
    fm = [k for k in svd[0].value.keywords if k.arg == 'full_matrices']
    chk.ob(rid, where(repo, fi, svd[0]), 'from_vector: reduced SVD (full_matrices=False)',
           len(fm) == 1 and isinstance(fm[0].value, ast.Constant) and fm[0].value.value is False, '',
           key=f'{rid}|from_vector|reduced')
    # matrix being split: (Dleft*d) x rest, with Dleft the current left dimension of v
    m = svd[0].value.args[0]
    b = pmatch('__X.reshape((__D * d, d ** (nsites - __i - 1)))', m)
    loop = [l for l in ast.walk(fi.node) if isinstance(l, ast.For) and any(x is svd[0] for x in ast.walk(l))]
    ok = b is not None and loop and norm(loop[0].target) == b['__i'] and norm(loop[0].iter) == 'range(nsites)'
    X = b['__X'] if b is not None else None
    # the matrix being split is the remainder carried from site to site: the right SVD factor itself, or a local that the
    # loop body rebinds to an expression of it; its row count is the current left bond dimension
    carried = X == V or any(isinstance(s_, ast.Assign) and norm(s_.targets[0]) == X and
                            any(isinstance(n_, ast.Name) and n_.id == V for n_ in ast.walk(s_.value))
                            for s_ in (loop[0].body if loop else []))
    dl = [s for s in (loop[0].body if loop else []) if isinstance(s, ast.Assign) and b is not None and
          (norm(s.targets[0]) == b['__D'] or (isinstance(s.targets[0], ast.Tuple) and s.targets[0].elts and
                                             norm(s.targets[0].elts[0]) == b['__D']))]
    ok = ok and carried and len(dl) == 1 and (norm(dl[0].value) == f'{X}.shape[0]' or
                                              (isinstance(dl[0].targets[0], ast.Tuple) and norm(dl[0].value) == f'{X}.shape'))
    chk.ob(rid, where(repo, fi, svd[0]), 'from_vector: site i splits off (left bond x d) against the remaining sites',
           bool(ok), norm(m)[:80], key=f'{rid}|from_vector|matrix')
    # leg domain: v = (left bond) x (phys_i, remaining sites); the loop body must produce a site tensor
    # (phys, left, new bond) and a new v = (new bond) x (remaining sites) carrying the singular values
    from .. import legs as lg
    from ..legs import LegError, LegUnknown, TVal
    from ..legs_interp import LegInterp
    sv = []
    if loop:
        i = norm(loop[0].target)
        XM = X or V
        v0 = lg.param_tensor(XM, 2, composite={1: [('d', None), (f'd ** (nsites - {i} - 1)', None)]})
        body = [s for s in loop[0].body if not isinstance(s, ast.Assert)]
        w = where(repo, fi, loop[0])
        try:
            it = LegInterp(fi, {XM: v0}, repo=repo, body=body)
            it.run()
            site = it.env.get(f'@{M}.A[{i}]')
            vn = it.env.get(XM)
            ok_site = isinstance(site, TVal) and site.rank == 3 and [[l.dim for l in ax] for ax in site.axes][:2] == \
                [['d'], [f'{XM}.0']] and len(site.axes[2]) == 1 and site.axes[2][0].tag == 'bond'
            chk.ob(rid, w, 'from_vector: site tensor has the layout (physical, left bond, new bond)', ok_site,
                   f'{[[l.dim for l in ax] for ax in site.axes] if isinstance(site, TVal) else site}', key=f'{rid}|from_vector|site')
            ok_v = isinstance(vn, TVal) and vn.rank == 2 and len(vn.axes[0]) == 1 and vn.axes[0][0].tag == 'bond' and \
                [l.dim for l in vn.axes[1]] == [f'd ** (nsites - {i} - 1)']
            chk.ob(rid, w, 'from_vector: the remainder is (new bond) x (remaining sites)', ok_v,
                   f'{[[l.dim for l in ax] for ax in vn.axes] if isinstance(vn, TVal) else vn}', key=f'{rid}|from_vector|remainder')
            okg, detail = False, ''
            if ok_site and ok_v:
                new = lg.tensordot(site, vn, [2], [0], 'new bond')
                red, applied, problems = lg.apply_rules(new)
                c = lg.canon(red)
                okg = not problems and len(applied) == 1 and c['open'] == [(f'{XM}.1a',), (f'{XM}.0',), (f'{XM}.1b',)] and \
                    not c['pairs'] and not red.net.weights
                detail = '; '.join(problems) or f'open {c["open"]}'
            chk.ob(rid, w, 'from_vector: site tensor times remainder reproduces the matrix that was split (singular values '
                   'enter exactly once)', okg, detail, key=f'{rid}|from_vector|gauge')
        except LegError as ex:
            if isinstance(ex, LegUnknown):
                raise           # not understood is not a finding
            chk.ob(rid, w, 'from_vector: loop body is well-formed in the leg domain', False, str(ex),
                   key=f'{rid}|from_vector|wellformed')
        sv = [s for s in loop[0].body if isinstance(s, ast.Assign) and norm(s.targets[0]) == V]
    lab = [s for s in (loop[0].body if loop else []) if isinstance(s, ast.Assign) and norm(s.targets[0]).startswith(f'{M}.qD[')]
    labv = norm(lab[0].value) if lab else ''
    labline = lab[0].lineno if lab else 0
    if lab and loop:
        # the length held in a local (`Dright = len(s)`): the definition is what counts, and where it stands
        for n_ in ast.walk(lab[0].value):
            if isinstance(n_, ast.Name):
                d_ = [s_ for s_ in loop[0].body if isinstance(s_, ast.Assign) and len(s_.targets) == 1 and norm(s_.targets[0]) == n_.id]
                if len(d_) == 1 and 'len(' in norm(d_[0].value):
                    labv = labv.replace(n_.id, norm(d_[0].value))
                    labline = d_[0].lineno
    strunc = [s_ for s_ in (loop[0].body if loop else []) if isinstance(s_, ast.Assign) and
              any(norm(t_) == S for t_ in (s_.targets[0].elts if isinstance(s_.targets[0], ast.Tuple) else s_.targets)) and
              not (isinstance(s_.value, ast.Call) and norm(s_.value.func) == 'np.linalg.svd')]
    ok = len(lab) == 1 and b is not None and norm(lab[0].targets[0]) == f'{M}.qD[{b["__i"]} + 1]' and \
        ((f'len({S})' in labv and labline > (strunc[0].lineno if strunc else 10 ** 9)) or
         any(f'len({norm(c_.targets[0])})' in norm(lab[0].value) for c_ in ast.walk(fi.node) if isinstance(c_, ast.Assign) and
             isinstance(c_.value, ast.Call) and norm(c_.value.func) == 'retained_bond_indices' and _before(fi.node, c_, lab[0])))
    chk.ob(rid, where(repo, fi, lab[0] if lab else fi.node), 'from_vector: the label of bond i+1 has the length of the '
           'retained singular values (taken after the truncation)', ok, norm(lab[0]) if lab else '', key=f'{rid}|from_vector|label')
    # trailing scalar absorbed
    tail = [s for s in fi.node.body if isinstance(s, ast.AugAssign) and norm(s.target) == f'{M}.A[-1]']
    ok = len(tail) == 1 and isinstance(tail[0].op, ast.Mult) and norm(tail[0].value) in (f'{V}[0, 0]', f'{X}[0, 0]')
    if not tail:
        # the product written out: M.A[-1] = M.A[-1] * v[0, 0] (either operand order)
        tail = [s for s in fi.node.body if isinstance(s, ast.Assign) and norm(s.targets[0]) == f'{M}.A[-1]' and
                isinstance(s.value, ast.BinOp) and isinstance(s.value.op, ast.Mult)]
        ok = len(tail) == 1 and sorted([norm(tail[0].value.left), norm(tail[0].value.right)]) in \
            (sorted([f'{M}.A[-1]', f'{V}[0, 0]']), sorted([f'{M}.A[-1]', f'{X}[0, 0]']))
    chk.ob(rid, where(repo, fi, tail[0] if tail else fi.node), 'from_vector: the remaining 1x1 factor is absorbed into the '
           'last tensor', ok, norm(tail[0]) if tail else '', key=f'{rid}|from_vector|tail')
    return n + 6


def run(chk, repo, tier):
    chk.rule('C13.R1', 'direction pairing: compress(mode=left) first canonicalises with orthonormalize(mode=right) and then '
                       'sweeps with the left SVD step (mirrored for right), so that every truncated bond is a Schmidt '
                       'decomposition; the first returned value is the factor of that orthonormalisation')
    chk.rule('C13.R2', 'returned pair: second element is >= 0 and (second element) x (phase absorbed into the boundary '
                       'tensor) == trailing factor T on every path')
    chk.rule('C13.R3', 'sweep wiring of both SVD sweeps: slots, labels, bond coverage (as C01.R2)')
    chk.rule('C13.R4', 'gauge invariance of both local SVD steps under U.diag(s).V == M with total singular-value exponent '
                       '1 on the new bond; charge orientation of the split_matrix_svd call and of the returned label')
    chk.rule('C13.R5', 'TT-SVD (from_vector): one index set truncates u, s, v along the new bond before any use; label length '
                       'taken after truncation; site tensor layout; singular values carried to the right')
    n4 = 0
    for q in SVD_STEPS:
        n4 += lr.check_local_step(chk, 'C13.R4', repo, q)
    chk.floor('C13.R4', n4, 10)
    fi = repo.func('mps.MPS.compress')
    br = mode_branches(fi)
    if set(br) != {'left', 'right'}:
        raise AnalysisError('compress: branches for mode "left" and "right" not found')
    n3 = 0
    from .C01 import pass_through_rule
    pass_through_rule(chk, repo, 'C13.R1', fi, br)
    for mode, stmts in br.items():
        other = 'right' if mode == 'left' else 'left'
        first = stmts[0]
        ok = isinstance(first, ast.Assign) and isinstance(first.value, ast.Call) and \
            norm(first.value.func) == 'self.orthonormalize' and \
            any(k.arg == 'mode' and isinstance(k.value, ast.Constant) and k.value.value == other
                for k in first.value.keywords)
        chk.ob('C13.R1', where(repo, fi, first), f'compress(mode={mode!r}) starts with orthonormalize(mode={other!r})', ok,
               norm(first)[:70], key=f'C13.R1|{mode}|pre')
        nrm = norm(first.targets[0]) if ok else None
        # the sweep uses the SVD step of its own direction
        calls = [c for s in stmts for c in ast.walk(s) if isinstance(c, ast.Call) and
                 norm(c.func).startswith('local_orthonormalize')]
        okd = bool(calls) and all(norm(c.func) == f'local_orthonormalize_{mode}_svd' for c in calls)
        chk.ob('C13.R1', where(repo, fi, first), f'compress(mode={mode!r}) sweeps with the {mode} SVD step', okd,
               f'{sorted({norm(c.func) for c in calls})}', key=f'C13.R1|{mode}|step')
        tols = all(len(c.args) >= 5 and norm(c.args[4]) == 'tol' for c in calls)
        chk.ob('C13.R1', where(repo, fi, first), f'compress(mode={mode!r}) hands its tolerance to every local SVD', tols, '',
               key=f'C13.R1|{mode}|tol')
        rets = [s for s in stmts if isinstance(s, ast.Return)]
        okr = len(rets) == 1 and isinstance(rets[0].value, ast.Tuple) and len(rets[0].value.elts) == 2 and \
            norm(rets[0].value.elts[0]) == nrm
        redefined = [s for s in stmts[1:] for t in ast.walk(s) if isinstance(t, ast.Name) and t.id == nrm and
                     isinstance(t.ctx, ast.Store)]
        chk.ob('C13.R1', where(repo, fi, rets[0] if rets else first), f'compress(mode={mode!r}): first returned value is the '
               f'norm reported by the initial orthonormalisation', okr and not redefined, '', key=f'C13.R1|{mode}|nrm')
        cases = sr.bond_coverage(chk, repo, 'C13.R3', fi, stmts, mode)
        for label, m, rep, pre in cases:
            seen = {}
            for kind, node, ok_, text in rep.items:
                if kind not in ('slot', 'pairing'):
                    continue
                base = f'C13.R3|{mode}|{label}|{kind}|{norm(node)[:60]}|{text[:160]}'
                seen[base] = seen.get(base, 0) + 1
                chk.ob('C13.R3', where(repo, fi, node), f'compress(mode={mode!r}) [{label}]: {text[:150]}', ok_, text,
                       key=base + (f'|#{seen[base]}' if seen[base] > 1 else ''))
                n3 += 1
        factor_rule(chk, repo, 'C13.R2', fi, mode, stmts, 3, ret_index=1, what='returned scale')
    chk.floor('C13.R3', n3, 30)
    from_vector_rules(chk, repo, 'C13.R5')
    from . import truncrule
    truncrule.rule(chk, repo, 'C13.R7')
    from . import support
    support.block_rules(chk, repo, 'C13.R6', ('svd',))
    chk.assume('factorisation contract U.diag(s).V == M of bond_ops.split_matrix_svd at tol = 0 (on the retained subspace '
               'otherwise); C12 decides its structural part')
    chk.undecided += ['the inequalities of the statement as numerical statements (error bounds, scale interval)']
    return ('Direction pairing and provenance rules for MPS.compress, factor x scale algebra for the returned pair, affine '
            'sweep wiring, leg-domain gauge invariance of the SVD steps (singular values enter with total exponent 1), '
            'bond-leg restriction and layout rules for the TT-SVD constructor.',
            'instances = branches x rules, call-site slots, paths x {form, sign, product}, restricted arrays')
