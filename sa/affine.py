"""Affine normal forms  c0 + sum ck*sym_k  over loop variables, L, len(.) ... (rational coefficients)."""
import ast
from fractions import Fraction

from .loader import norm


class Affine:
    __slots__ = ('c', 't')

    def __init__(self, c=0, t=None):
        self.c = Fraction(c)
        self.t = {k: Fraction(v) for k, v in (t or {}).items() if v != 0}

    @staticmethod
    def const(c):
        return Affine(c)

    @staticmethod
    def sym(name, k=1):
        return Affine(0, {name: k})

    def __add__(self, o):
        o = _aff(o)
        t = dict(self.t)
        for k, v in o.t.items():
            t[k] = t.get(k, 0) + v
        return Affine(self.c + o.c, t)

    __radd__ = __add__

    def __neg__(self):
        return Affine(-self.c, {k: -v for k, v in self.t.items()})

    def __sub__(self, o):
        return self + (-_aff(o))

    def __rsub__(self, o):
        return _aff(o) - self

    def scale(self, k):
        k = Fraction(k)
        return Affine(self.c * k, {s: v * k for s, v in self.t.items()})

    def __mul__(self, o):
        o = _aff(o)
        if not o.t:
            return self.scale(o.c)
        if not self.t:
            return o.scale(self.c)
        raise ValueError('non-linear product')

    __rmul__ = __mul__

    def is_const(self):
        return not self.t

    def __eq__(self, o):
        if not isinstance(o, (Affine, int, Fraction)):
            return False
        o = _aff(o)
        return self.c == o.c and self.t == o.t

    def __hash__(self):
        return hash((self.c, tuple(sorted(self.t.items()))))

    def syms(self):
        return set(self.t)

    def coeff(self, s):
        return self.t.get(s, Fraction(0))

    def subst(self, s, val):
        """substitute symbol s by affine val"""
        if s not in self.t:
            return self
        k = self.t[s]
        rest = Affine(self.c, {a: b for a, b in self.t.items() if a != s})
        return rest + _aff(val).scale(k)

    def __repr__(self):
        parts = []
        for s in sorted(self.t):
            v = self.t[s]
            if v == 1:
                parts.append(f'{s}')
            elif v == -1:
                parts.append(f'-{s}')
            else:
                parts.append(f'{v}*{s}')
        if self.c != 0 or not parts:
            parts.append(str(self.c))
        return ' + '.join(parts).replace('+ -', '- ')


def _aff(x):
    if isinstance(x, Affine):
        return x
    return Affine(x)


def to_affine(e, env=None, attr_syms=None, len_syms=None):
    """Convert an index expression.  env: name -> Affine (known local definitions);
    attr_syms: normalised attribute text -> symbol; len_syms: normalised argument text of len() -> Affine.
    Raises ValueError for anything non-affine."""
    env = env or {}
    attr_syms = attr_syms or {}
    len_syms = len_syms or {}
    if isinstance(e, ast.Constant) and isinstance(e.value, (int, float)) and not isinstance(e.value, bool):
        return Affine(Fraction(e.value).limit_denominator(10**6) if isinstance(e.value, float) else e.value)
    if isinstance(e, ast.Name):
        if e.id in env:
            return env[e.id]
        return Affine.sym(e.id)
    if isinstance(e, ast.UnaryOp) and isinstance(e.op, ast.USub):
        return -to_affine(e.operand, env, attr_syms, len_syms)
    if isinstance(e, ast.UnaryOp) and isinstance(e.op, ast.UAdd):
        return to_affine(e.operand, env, attr_syms, len_syms)
    if isinstance(e, ast.BinOp):
        if isinstance(e.op, ast.FloorDiv):
            # opaque symbol (e.g. L//2)
            return Affine.sym(norm(e).replace(' ', ''))
        a = to_affine(e.left, env, attr_syms, len_syms)
        b = to_affine(e.right, env, attr_syms, len_syms)
        if isinstance(e.op, ast.Add):
            return a + b
        if isinstance(e.op, ast.Sub):
            return a - b
        if isinstance(e.op, ast.Mult):
            return a * b
        if isinstance(e.op, ast.Div):
            if b.is_const() and b.c != 0:
                return a.scale(1 / b.c)
        raise ValueError(norm(e))
    if isinstance(e, ast.Attribute):
        t = norm(e)
        if t in attr_syms:
            s = attr_syms[t]
            return s if isinstance(s, Affine) else Affine.sym(s)
        return Affine.sym(t)
    if isinstance(e, ast.Call) and isinstance(e.func, ast.Name) and e.func.id == 'len' and len(e.args) == 1:
        t = norm(e.args[0])
        if t in len_syms:
            s = len_syms[t]
            return s if isinstance(s, Affine) else Affine.sym(s)
        return Affine.sym(f'len({t})')
    raise ValueError(norm(e))


def try_affine(e, *a, **k):
    try:
        return to_affine(e, *a, **k)
    except ValueError:
        return None
